package c14

import (
	"bytes"
	"encoding/binary"
	"fmt"
	"math/rand"
	"strings"

	"github.com/bitcoin-sv/block-headers-service/internal/wire"
	"github.com/bitcoin-sv/block-headers-service/verifharness/ev"
)

// mutation classes (also the <mutation class> part of signatures)
const (
	clBitflipRaw    = "bitflip-raw"
	clBitflipResum  = "bitflip-resum"
	clTruncRaw      = "trunc-raw"
	clTruncResum    = "trunc-resum"
	clLenInflate    = "len-inflate"
	clOversize      = "oversize-resum"
	clCountInflate  = "count-inflate"
	clNonCanon      = "noncanon-varint"
	clSplice        = "splice"
	clBadMagic      = "bad-magic"
	clBadChecksum   = "bad-checksum"
	clBadCommand    = "bad-command"
	clRandomPayload = "random-payload"
	clRandomRaw     = "random-raw"
	clRandomMagic   = "random-magic"
)

// per-command classes with (cases, frames per case) at scale 1
var perCmdClasses = []struct {
	name   string
	cases  int
	frames int // 0 = the class enumerates (every offset …) and sizes itself
}{
	{clBitflipRaw, 2, 500},
	{clBitflipResum, 3, 500},
	{clTruncRaw, 1, 0},
	{clTruncResum, 1, 0},
	{clLenInflate, 1, 0},
	{clOversize, 1, 0},
	{clCountInflate, 1, 0},
	{clNonCanon, 1, 0},
	{clSplice, 1, 300},
	{clBadMagic, 1, 100},
	{clBadChecksum, 1, 100},
	{clBadCommand, 1, 100},
	{clRandomPayload, 3, 500},
}

// hz is the per-process hostile-input engine.
type hz struct {
	r   *ev.Run
	t   *tables
	dec *decoder
	cnt map[string]int64
	sig map[string]struct{}

	// current case
	caseID string
	cmd    string
	class  string
	idx    int
	rng    *rand.Rand
	pv     *rand.Rand // second stream: the reader's protocol version does not disturb frame generation

	maxRatioNum, maxRatioDen uint64
	maxRatioWhat             string
}

func (h *hz) count(name string, n int64) { h.cnt[name] += n }

func (h *hz) flush() {
	for k, v := range h.cnt {
		h.r.Count(k, v)
		delete(h.cnt, k)
	}
}

// baseFrame returns a fresh valid frame of cmd for net (encoded by the real encoder
// at the newest protocol version), its payload offset being hdrSize.
func (h *hz) baseFrame(rng *rand.Rand, cmd string, net wire.BitcoinNet, sz int) []byte {
	k := h.t.byCmd[cmd]
	var m wire.Message
	var raw []byte
	if k.listed {
		m = genMsg(rng, cmd, sz)
	} else {
		m, raw = genOther(rng, cmd)
	}
	if m == nil {
		return frame(net, cmd, raw)
	}
	var b bytes.Buffer
	if _, err := wire.WriteMessageWithEncodingN(&b, m, wire.ProtocolVersion, net, wire.BaseEncoding); err != nil {
		// the encoder refusing a valid message is the round-trip phase's business; fall back to an empty payload
		h.count("base_frame_encode_errors", 1)
		return frame(net, cmd, nil)
	}
	return b.Bytes()
}

func (h *hz) pickNet(rng *rand.Rand) wire.BitcoinNet {
	if rng.Intn(8) == 0 {
		return h.t.netList[1+rng.Intn(len(h.t.netList)-1)]
	}
	return wire.MainNet
}

// emit: one hostile input under all monitors. net is the network the READER expects.
func (h *hz) emit(in []byte, net wire.BitcoinNet, sub string) {
	h.idx++
	frameID := h.caseID + "/" + utoa(uint64(h.idx))
	pver := h.t.pickPver(h.pv) // drawn before the replay filter: skipped frames consume the stream too
	if h.r.Only != "" && h.r.Only != h.caseID && h.r.Only != frameID {
		return
	}
	enc := wire.BaseEncoding
	if h.idx&1 == 1 {
		enc = wire.LatestEncoding
	}
	h.r.Exec(frameID, func() { h.judge(in, pver, net, enc, frameID, sub, 0) })
}

func (h *hz) judge(in []byte, pver uint32, net wire.BitcoinNet, enc wire.MessageEncoding, frameID, sub string, depth int) {
	t, r := h.t, h.r
	e := t.classify(in, pver, net)
	o, hung, rerun := h.dec.decode(job{in: in, pver: pver, net: net, enc: enc})
	cmdTag := h.cmd
	if cmdTag == "" {
		cmdTag = "-"
	}
	h.count("hostile|"+cmdTag, 1)
	h.count("class|"+h.class, 1)
	h.count("hostile_pver|"+t.pverTag(pver), 1)
	if strings.HasPrefix(sub, "limit") && strings.HasSuffix(sub, "@count") {
		h.count("count_field_at_declared_limit_frames", 1)
	}
	r.Cases(1)
	detail := func() map[string]any {
		d := map[string]any{
			"class": h.class, "variant": sub, "base_command": h.cmd, "frame_command": e.cmd, "pver": pver, "net": uint32(net), "encoding": uint32(enc),
			"input_len": len(in), "announced_len": e.hdrLen, "must_reject": e.mustReject,
		}
		if len(in) <= 8192 {
			d["input_hex"] = fmt.Sprintf("%x", in)
		} else {
			d["input_hex_head"] = hexHead(in, 512)
		}
		return d
	}
	if h.class == clNonCanon && strings.HasSuffix(sub, "@count") {
		h.count("noncanonical_count_varint_frames", 1)
		h.count("noncanonical_count_varint_accepted", 0)
	}
	if rerun {
		h.count("watchdog_reruns", 1)
	}
	if hung {
		d := detail()
		r.Violate("hang|"+cmdTag+"|"+h.class, fmt.Sprintf("decoding did not return within %s, nor within %s when re-run alone", deadline1, deadline2), frameID, d)
		return
	}
	if o.panicked != nil {
		d := detail()
		d["panic"] = fmt.Sprint(o.panicked)
		d["stack"] = o.stack
		r.Violate("panic|"+cmdTag+"|"+h.class, fmt.Sprintf("decoder panicked in %s: %v", panicSite(o.stack), o.panicked), frameID, d)
		return
	}
	outcomeTag := "rejected"
	if o.err == nil {
		outcomeTag = "decoded"
		h.count("hostile_decoded", 1)
		h.count("decoded|"+h.class, 1)
		if h.class == clNonCanon && strings.HasSuffix(sub, "@count") {
			// not demanded by the statement (weakest reading): evidence only
			h.count("noncanonical_count_varint_accepted", 1)
		}
		if e.mustReject != "" {
			d := detail()
			d["decoded"] = trunc(fmt.Sprintf("%T %+v", o.msg, o.msg), 1500)
			r.Violate("accepted|"+e.mustReject, "a frame the statement requires to be rejected ("+e.mustReject+") was decoded into a message", frameID, d)
		} else {
			// an accepted frame: the decoder's own report must agree with the independent parse
			want := e.cmd
			if want == wire.CmdAuthch {
				want = wire.CmdProtoconf // authch is decoded into the protoconf type (payload ignored)
			}
			switch {
			case o.msg == nil:
				r.Violate("decoded|nil-message", "decoder returned neither an error nor a message", frameID, detail())
			case o.msg.Command() != want:
				r.Violate("decoded|wrong-type|"+e.cmd, "decoder returned a message of another command than the frame's", frameID, detail())
			case o.n != hdrSize+int(e.hdrLen):
				r.Violate("decoded|consumed", "decoder consumed a different number of bytes than header + announced length", frameID, detail())
			case !bytes.Equal(o.payload, in[hdrSize:hdrSize+int(e.hdrLen)]):
				r.Violate("decoded|payload", "decoder returned other payload bytes than the frame carries", frameID, detail())
			}
		}
	} else {
		h.count("hostile_rejected", 1)
		if e.mustReject != "" {
			h.count("rejected_as_required|"+e.mustReject, 1)
		} else {
			h.count("rejected_by_payload_decoder", 1)
		}
	}
	// allocation monitor
	if !h.dec.tainted && !rerun {
		bound := t.allocBound(&e, len(in))
		h.count(ratioBucket(o.alloc, bound), 1)
		h.count(ampBucket(o.alloc, len(in)), 1)
		if e.k != nil && !e.headerOnly {
			own := e.k.amp*e.mpl + slack
			if e.k.cmd != wire.CmdVersion {
				own += e.k.gamma(t)
			} else {
				own += wire.MaxUserAgentLen
			}
			if o.alloc > own {
				// inside the var-string guard (global limit) but beyond what the kind's own payload limit explains
				h.count("alloc_beyond_own_payload_limit|"+e.k.cmd, 1)
			}
		}
		if o.alloc*h.maxRatioDen > h.maxRatioNum*bound || h.maxRatioDen == 0 {
			h.maxRatioNum, h.maxRatioDen = o.alloc, bound
			h.maxRatioWhat = fmt.Sprintf("%s %s/%s pver %d: input %d bytes (announced %d), allocated %d, bound %d, %s", frameID, h.class, sub, pver, len(in), e.hdrLen, o.alloc, bound, outcomeTag)
		}
		if o.alloc > bound {
			// Decoding is a function of the input and so is what it allocates; the measurement (TotalAlloc of the process) also
			// sees whatever another goroutine allocated in between. Measure the same input again, twice: noise does not repeat.
			for k := 0; k < 2 && o.alloc > bound; k++ {
				o2, hung2, _ := h.dec.decode(job{in: in, pver: pver, net: net, enc: enc})
				if hung2 || o2.panicked != nil {
					break
				}
				h.count("allocations_measured_again", 1)
				if o2.alloc < o.alloc {
					o.alloc = o2.alloc
				}
			}
		}
		if o.alloc > bound {
			d := detail()
			d["allocated_bytes"] = o.alloc
			d["bound_bytes"] = bound
			if o.err != nil {
				d["error"] = trunc(o.err.Error(), 300)
			}
			where := "payload"
			if e.headerOnly {
				where = "header-reject"
			}
			r.Violate("alloc|"+cmdTag+"|"+h.class+"|"+where, fmt.Sprintf("decoding a %d-byte input allocated %d bytes, bound %d", len(in), o.alloc, bound), frameID, d)
		}
	} else {
		h.count("alloc_unmonitored_after_hang", 1)
	}
	sg := cmdTag + "|" + h.class + "|" + t.pverClass(pver) + "|" + outcomeTag + "|" + e.mustReject
	if _, ok := h.sig[sg]; !ok {
		h.sig[sg] = struct{}{}
		r.Distinct(sg)
	}
	if r.WantSample() && h.idx%97 == 5 {
		r.Sample(map[string]any{"case": frameID, "class": h.class, "variant": sub, "pver": pver, "input_hex": hexHead(in, 160), "must_reject": e.mustReject, "outcome": outcomeTag, "allocated": o.alloc})
	}
	// a stream: after an accepted frame the reader goes on with the next bytes
	if o.err == nil && o.n > 0 && o.n < len(in) && depth < 3 {
		h.count("stream_followup_frames", 1)
		h.judge(in[o.n:], pver, net, enc, frameID, sub+"+next", depth+1)
	}
}

func trunc(s string, n int) string {
	if len(s) > n {
		return s[:n] + "…"
	}
	return s
}

// offsets to visit in [0,n): all when small, otherwise head, tail and a stride.
func offsets(n, budget int) []int {
	if n <= budget {
		out := make([]int, n)
		for i := range out {
			out[i] = i
		}
		return out
	}
	var out []int
	head := budget / 2
	for i := 0; i < head; i++ {
		out = append(out, i)
	}
	rest := budget - head - 16
	stride := (n - head - 16) / rest
	if stride < 1 {
		stride = 1
	}
	for i := head; i < n-16; i += stride {
		out = append(out, i)
	}
	for i := n - 16; i < n; i++ {
		out = append(out, i)
	}
	return out
}

func varint(v uint64, form byte) []byte {
	switch form {
	case 0xfd:
		b := make([]byte, 3)
		b[0] = 0xfd
		binary.LittleEndian.PutUint16(b[1:], uint16(v))
		return b
	case 0xfe:
		b := make([]byte, 5)
		b[0] = 0xfe
		binary.LittleEndian.PutUint32(b[1:], uint32(v))
		return b
	case 0xff:
		b := make([]byte, 9)
		b[0] = 0xff
		binary.LittleEndian.PutUint64(b[1:], v)
		return b
	}
	return []byte{byte(v)}
}

func canonVarint(v uint64) []byte {
	switch {
	case v < 0xfd:
		return varint(v, 0)
	case v <= 0xffff:
		return varint(v, 0xfd)
	case v <= 0xffffffff:
		return varint(v, 0xfe)
	}
	return varint(v, 0xff)
}

func splicePayload(p []byte, at int, ins []byte, cutRest bool) []byte {
	out := make([]byte, 0, len(p)+len(ins))
	out = append(out, p[:at]...)
	out = append(out, ins...)
	if !cutRest && at+1 <= len(p) {
		out = append(out, p[at+1:]...)
	}
	return out
}

// runCase generates and judges the frames of one (command, class, batch) case.
func (h *hz) runCase(cmd, class string, scale, frames int) {
	h.cmd, h.class, h.idx = cmd, class, 0
	rng := h.r.Rand(h.caseID)
	h.rng = rng
	h.pv = h.r.Rand(h.caseID + "#pver")
	t := h.t
	var k *kind
	if cmd != "" {
		k = t.byCmd[cmd]
	}
	base := func(sz int) ([]byte, wire.BitcoinNet) {
		net := h.pickNet(rng)
		return h.baseFrame(rng, cmd, net, sz), net
	}
	smallOrMedium := func() int {
		if rng.Intn(6) == 0 {
			return szMedium
		}
		return szSmall
	}
	switch class {
	case clBitflipRaw:
		for i := 0; i < frames; i++ {
			f, net := base(smallOrMedium())
			for j, n := 0, 1+rng.Intn(3); j < n; j++ {
				pos := rng.Intn(len(f))
				if rng.Intn(5) == 0 {
					pos = rng.Intn(hdrSize)
				}
				f[pos] ^= 1 << uint(rng.Intn(8))
			}
			h.emit(f, net, "bits")
		}
	case clBitflipResum:
		interesting := []byte{0x00, 0x01, 0x7f, 0x80, 0xfc, 0xfd, 0xfe, 0xff}
		for i := 0; i < frames; i++ {
			f, net := base(smallOrMedium())
			sub := "bits"
			if len(f) == hdrSize {
				f = append(f, rBytes(rng, 1+rng.Intn(8))...)
				sub = "payload-added"
			} else {
				for j, n := 0, 1+rng.Intn(4); j < n; j++ {
					pos := hdrSize + rng.Intn(len(f)-hdrSize)
					if rng.Intn(3) == 0 {
						f[pos] = interesting[rng.Intn(len(interesting))]
						sub = "bytes"
					} else {
						f[pos] ^= 1 << uint(rng.Intn(8))
					}
				}
			}
			resum(f)
			h.emit(f, net, sub)
		}
	case clTruncRaw:
		for _, sz := range []int{szSmall, szSmall, szMedium, szMax} {
			f, net := base(sz)
			budget := 400 * scale
			if sz == szMax {
				budget = 60
			}
			for _, cut := range offsets(len(f), budget) {
				h.emit(append([]byte(nil), f[:cut]...), net, "cut")
			}
		}
	case clTruncResum:
		for _, sz := range []int{szSmall, szSmall, szMedium, szMax} {
			f, net := base(sz)
			budget := 400 * scale
			if sz == szMax {
				budget = 60
			}
			for _, cut := range offsets(len(f)-hdrSize, budget) {
				g := append([]byte(nil), f[:hdrSize+cut]...)
				resum(g)
				h.emit(g, net, "cut")
			}
		}
	case clLenInflate:
		for i := 0; i < 4*scale; i++ {
			f, net := base(smallOrMedium())
			plen := uint64(len(f) - hdrSize)
			mpl := uint64(k.fresh().MaxPayloadLength(wire.ProtocolVersion))
			vals := []uint64{plen + 1, plen + 255, mpl + 1, t.maxMsg + 1, 1 << 31, 0xffffffff, uint64(rng.Uint32())}
			if i == 0 || mpl <= 4<<20 {
				// announcing the full limit makes the reader allocate it up front: once per case for the 256 MiB kinds
				vals = append(vals, mpl, t.maxMsg)
			} else {
				vals = append(vals, uint64(rng.Int63n(4<<20)))
			}
			if plen > 0 {
				vals = append(vals, plen-1, 0)
			}
			for _, v := range vals {
				if v > 0xffffffff {
					continue
				}
				g := append([]byte(nil), f...)
				binary.LittleEndian.PutUint32(g[16:20], uint32(v))
				h.emit(g, net, "len")
				if v < plen {
					// shorter announced length with a checksum matching that prefix
					g2 := append([]byte(nil), f...)
					binary.LittleEndian.PutUint32(g2[16:20], uint32(v))
					c := sha256d4(g2[hdrSize : hdrSize+int(v)])
					copy(g2[20:24], c[:])
					h.emit(g2, net, "len-resum")
				}
			}
		}
	case clOversize:
		// a consistent frame (length + checksum right) whose payload is one byte longer than the
		// kind's declared limit at the reader's version; only the length check can refuse it
		for _, pver := range t.pvers {
			mpl := uint64(k.fresh().MaxPayloadLength(pver))
			if mpl+1 > 4<<20 {
				continue
			}
			f, net := base(szSmall)
			for _, n := range []uint64{mpl + 1, mpl} {
				p := append([]byte(nil), f[hdrSize:]...)
				if uint64(len(p)) > n {
					p = p[:n]
				}
				for uint64(len(p)) < n {
					p = append(p, 0)
				}
				g := frame(net, cmd, p)
				h.idx++
				frameID := h.caseID + "/" + utoa(uint64(h.idx))
				if h.r.Only != "" && h.r.Only != h.caseID && h.r.Only != frameID {
					continue
				}
				sub := "limit+1"
				if n == mpl {
					sub = "limit"
				}
				pv := pver
				h.r.Exec(frameID, func() { h.judge(g, pv, net, wire.BaseEncoding, frameID, sub, 0) })
			}
		}
	case clCountInflate:
		for bi := 0; bi < 2*scale; bi++ {
			f, net := base(szSmall)
			p := f[hdrSize:]
			type form struct {
				name string
				b    []byte
			}
			forms := []form{
				{"fc", varint(0xfc, 0)}, {"fd-253", varint(253, 0xfd)}, {"fd-65535", varint(0xffff, 0xfd)},
				{"fe-65536", varint(0x10000, 0xfe)}, {"fe-2^32-1", varint(0xffffffff, 0xfe)},
				{"ff-2^32", varint(1<<32, 0xff)}, {"ff-2^63", varint(1<<63, 0xff)}, {"ff-2^64-1", varint(^uint64(0), 0xff)},
			}
			var offs []int
			if k.countOffset >= 0 {
				offs = append(offs, k.countOffset)
			}
			for _, o := range offsets(len(p), 96) {
				if o != k.countOffset {
					offs = append(offs, o)
				}
			}
			if len(p) == 0 {
				offs = []int{0}
			}
			for oi, at := range offs {
				fs := forms
				if at == k.countOffset {
					// the real count / length field: its declared limit, limit+1 and the global limit
					if k.countLimit > 0 {
						fs = append(fs, form{"limit", canonVarint(k.countLimit)}, form{"limit+1", canonVarint(k.countLimit + 1)}, form{"limit-1", canonVarint(k.countLimit - 1)})
					}
					if bi == 0 {
						fs = append(fs, form{"global-limit", canonVarint(t.maxMsg)}, form{"global-limit+1", canonVarint(t.maxMsg + 1)})
					}
				}
				if at > len(p) {
					continue
				}
				for _, fo := range fs {
					for _, cut := range []bool{false, true} {
						if cut && oi >= 8 && at != k.countOffset {
							continue // "announce, send nothing" only at the leading offsets
						}
						var np []byte
						if len(p) == 0 {
							np = append([]byte(nil), fo.b...)
						} else {
							np = splicePayload(p, at, fo.b, cut)
						}
						sub := fo.name
						if cut {
							sub += "/nothing-follows"
						}
						if at == k.countOffset {
							sub += "@count"
						}
						h.emit(frame(net, cmd, np), net, sub)
					}
				}
			}
		}
	case clNonCanon:
		for bi := 0; bi < 2*scale; bi++ {
			f, net := base(szSmall)
			p := f[hdrSize:]
			for _, at := range offsets(len(p), 96) {
				v := uint64(p[at])
				if v >= 0xfd {
					v = 1
				}
				for _, fo := range []byte{0xfd, 0xfe, 0xff} {
					sub := fmt.Sprintf("%02x", fo)
					if at == k.countOffset {
						sub += "@count"
					}
					h.emit(frame(net, cmd, splicePayload(p, at, varint(v, fo), false)), net, sub)
				}
			}
			if k.countOffset >= 0 && k.countOffset < len(p) {
				// 2-byte value in 4/8-byte form, 4-byte value in 8-byte form
				h.emit(frame(net, cmd, splicePayload(p, k.countOffset, varint(300, 0xfe), false)), net, "fe-300@count")
				h.emit(frame(net, cmd, splicePayload(p, k.countOffset, varint(300, 0xff), false)), net, "ff-300@count")
				h.emit(frame(net, cmd, splicePayload(p, k.countOffset, varint(70000, 0xff), false)), net, "ff-70000@count")
			}
		}
	case clSplice:
		for i := 0; i < frames; i++ {
			net := h.pickNet(rng)
			f := h.baseFrame(rng, cmd, net, smallOrMedium())
			other := t.kinds[rng.Intn(len(t.kinds))].cmd
			g := h.baseFrame(rng, other, net, szSmall)
			var in []byte
			var sub string
			switch rng.Intn(6) {
			case 0:
				in, sub = append(append([]byte(nil), f[:rng.Intn(len(f)+1)]...), g[rng.Intn(len(g)+1):]...), "prefix+suffix"
			case 1:
				in, sub = append(append([]byte(nil), f[:hdrSize]...), g[hdrSize:]...), "header+foreign-payload"
			case 2:
				in = append(append([]byte(nil), f[:hdrSize]...), g[hdrSize:]...)
				resum(in)
				sub = "header+foreign-payload-resum"
			case 3:
				in, sub = append(append([]byte(nil), f...), g...), "two-frames"
			case 4:
				in, sub = append(append([]byte(nil), f[:hdrSize+(len(f)-hdrSize)/2]...), g...), "half-frame+frame"
			default:
				// foreign frame embedded as this command's payload
				in, sub = frame(net, cmd, g), "frame-as-payload"
			}
			h.emit(in, net, sub+"/"+other)
		}
	case clBadMagic:
		for i := 0; i < frames; i++ {
			f, net := base(szSmall)
			sub := ""
			switch rng.Intn(4) {
			case 0:
				var o wire.BitcoinNet
				for o = net; o == net; o = t.netList[rng.Intn(len(t.netList))] {
				}
				binary.LittleEndian.PutUint32(f[0:4], uint32(o))
				sub = "other-network"
			case 1:
				f[rng.Intn(4)] ^= 1 << uint(rng.Intn(8))
				sub = "bit"
			case 2:
				binary.BigEndian.PutUint32(f[0:4], uint32(net))
				sub = "byte-order"
			default:
				_, _ = rng.Read(f[0:4])
				if binary.LittleEndian.Uint32(f[0:4]) == uint32(net) {
					f[0] ^= 0xff
				}
				sub = "random"
			}
			if rng.Intn(10) == 0 {
				// with an announced length far beyond the input (the discard path)
				binary.LittleEndian.PutUint32(f[16:20], uint32(rng.Int63n(int64(t.maxMsg>>uint(rng.Intn(16)))+1)))
				sub += "+long"
			}
			h.emit(f, net, sub)
		}
	case clBadChecksum:
		for i := 0; i < frames; i++ {
			f, net := base(smallOrMedium())
			sub := ""
			switch rng.Intn(4) {
			case 0:
				f[20+rng.Intn(4)] ^= 1 << uint(rng.Intn(8))
				sub = "bit"
			case 1:
				old := [4]byte{f[20], f[21], f[22], f[23]}
				for {
					_, _ = rng.Read(f[20:24])
					if [4]byte{f[20], f[21], f[22], f[23]} != old {
						break
					}
				}
				sub = "random"
			case 2:
				c := sha256d4(append([]byte{0x55}, f[hdrSize:]...))
				copy(f[20:24], c[:])
				sub = "other-payload"
			default:
				// the checksum of the empty payload (zero when the payload is empty)
				c := sha256d4(nil)
				if len(f) == hdrSize {
					c = [4]byte{}
				}
				copy(f[20:24], c[:])
				sub = "empty-or-zero"
			}
			h.emit(f, net, sub)
		}
	case clBadCommand:
		for i := 0; i < frames; i++ {
			f, net := base(szSmall)
			var c []byte
			sub := ""
			switch rng.Intn(9) {
			case 0:
				c, sub = []byte(strings.ToUpper(cmd)), "upper-case"
			case 1:
				c, sub = []byte(cmd+"x"), "suffix"
			case 2:
				c, sub = []byte(cmd[:len(cmd)-1]), "shortened"
			case 3:
				c, sub = []byte(cmd+"\x00x"), "garbage-after-nul"
			case 4:
				c, sub = []byte("\x00"+cmd), "leading-nul"
			case 5:
				c, sub = nil, "empty"
			case 6:
				c = []byte(cmd)
				c[rng.Intn(len(c))] = byte(0x80 + rng.Intn(0x80))
				sub = "non-utf8"
			case 7:
				c = make([]byte, 12)
				for j := range c {
					c[j] = byte('a' + rng.Intn(26))
				}
				sub = "random-letters"
			default:
				c = rBytes(rng, 12)
				sub = "random-bytes"
			}
			if len(c) > 12 {
				c = c[:12]
			}
			var field [12]byte
			copy(field[:], c)
			name := string(bytes.TrimRight(field[:], "\x00"))
			if _, known := t.byCmd[name]; known {
				continue // happened to be a valid command (e.g. "getcfilter"+"s")
			}
			copy(f[4:16], field[:])
			h.emit(f, net, sub)
		}
	case clRandomPayload:
		for i := 0; i < frames; i++ {
			net := h.pickNet(rng)
			var n int
			switch rng.Intn(4) {
			case 0:
				n = rng.Intn(17)
			case 1:
				n = rng.Intn(100)
			case 2:
				n = rng.Intn(400)
			default:
				n = len(h.baseFrame(rng, cmd, net, szSmall)) - hdrSize + rng.Intn(5) - 2
				if n < 0 {
					n = 0
				}
			}
			p := rBytes(rng, n)
			sub := "uniform"
			if rng.Intn(3) == 0 && k.countOffset >= 0 && k.countOffset < len(p) {
				p[k.countOffset] = byte(rng.Intn(6)) // a plausible small count so that element decoders are reached
				sub = "small-count"
			}
			h.emit(frame(net, cmd, p), net, sub)
		}
	case clRandomRaw:
		for i := 0; i < frames; i++ {
			h.emit(rBytes(rng, rng.Intn(121)), wire.MainNet, "bytes")
		}
	case clRandomMagic:
		for i := 0; i < frames; i++ {
			net := h.pickNet(rng)
			in := rBytes(rng, 4+rng.Intn(117))
			binary.LittleEndian.PutUint32(in[0:4], uint32(net))
			sub := "magic+bytes"
			if rng.Intn(2) == 0 && len(in) >= hdrSize {
				var field [12]byte
				copy(field[:], t.kinds[rng.Intn(len(t.kinds))].cmd)
				copy(in[4:16], field[:])
				sub = "magic+command+bytes"
				if rng.Intn(2) == 0 {
					binary.LittleEndian.PutUint32(in[16:20], uint32(len(in)-hdrSize))
					sub = "magic+command+length+bytes"
				}
			}
			h.emit(in, net, sub)
		}
	default:
		panic("unknown class " + class)
	}
}
