package c13

import (
	"errors"
	"fmt"

	"github.com/bitcoin-sv/block-headers-service/config"
	"github.com/bitcoin-sv/block-headers-service/internal/chaincfg"
	"github.com/bitcoin-sv/block-headers-service/internal/chaincfg/chainhash"
	"github.com/bitcoin-sv/block-headers-service/verifharness/deco"
	"github.com/bitcoin-sv/block-headers-service/verifharness/ev"
	"github.com/bitcoin-sv/block-headers-service/verifharness/gen"
	"github.com/bitcoin-sv/block-headers-service/verifharness/mb"
	"github.com/bitcoin-sv/block-headers-service/verifharness/refmodel"
	"github.com/bitcoin-sv/block-headers-service/verifharness/rig"
	"github.com/bitcoin-sv/block-headers-service/verifharness/snap"
)

// faulted stores: a reorganisation is interrupted by a failing relabel statement (the submission is answered with an
// error). Until the header is delivered again the labels are whatever the interrupted reorganisation left (C05's
// business), but what the service then says about its chain must still BE a chain: the locator is a run of stored
// headers each of which is an ancestor of the one before, ending at genesis, and a getheaders answer from genesis is
// hash-linked. After the redelivery the answers are compared with the model again.
type relabelFault struct {
	armed, fired bool
	n, failAt    int
}

func faultedStores(r *ev.Run) {
	f := &relabelFault{}
	hooks := &deco.Hooks{Before: func(op string, _ bool, _ string) error {
		if op == "UpdateState" && f.armed {
			f.n++
			if f.n == f.failAt {
				f.fired = true
				return errors.New("verif: injected relabel failure")
			}
		}
		return nil
	}}
	var st *rig.Stack
	defer func() {
		if st != nil {
			st.Destroy()
		}
	}()
	n := r.Pick(60, 800)
	for i := 0; i < n; i++ {
		caseID := fmt.Sprintf("faulted/%d", i)
		r.Do(caseID, func() {
			if st == nil {
				var err error
				if st, err = rig.New(rig.Options{Dir: r.Scratch, Name: "c13-faulted.db", NoHTTP: true, WrapHeaders: deco.Wrap(hooks)}); err != nil {
					st = nil
					r.Violate("harness|rig", err.Error(), caseID, nil)
					return
				}
			}
			rng := r.Rand(caseID)
			hist := gen.Random(rng, rig.Genesis(), gen.Opts{N: 15 + rng.Intn(60), PDup: 0.02, PUnknown: 0.03, PFork: []float64{0.3, 0.5}[rng.Intn(2)], Classes: []string{"MH", "MHL"}[rng.Intn(2)]})
			_ = st.Reset()
			e := &env{r: r, st: st, m: mb.NewModel(), caseID: caseID, desc: map[string]any{"history_hex": hist.Hex()}}
			var failedAt []int
			e.desc["relabel_failures_injected_at_steps"] = &failedAt
			sqlReady := false
			if _, err := st.DB.Exec(`CREATE TABLE IF NOT EXISTS verif_c13(armed INTEGER); DELETE FROM verif_c13; INSERT INTO verif_c13 VALUES (0);
CREATE TRIGGER IF NOT EXISTS verif_c13_upd BEFORE UPDATE ON headers WHEN (SELECT armed FROM verif_c13) = 1 BEGIN SELECT RAISE(ABORT, 'verif: injected relabel failure inside sqlite'); END;`); err == nil {
				sqlReady = true
			}
			for k, h := range hist.Hdrs {
				*f = relabelFault{armed: rng.Intn(2) == 0, failAt: 1 + rng.Intn(2)}
				// half of the failures happen inside SQLite (every UPDATE of the headers table aborts while armed) instead of
				// at the repository seam
				sqlLevel := false
				if f.armed && sqlReady && rng.Intn(2) == 0 {
					if _, _, reorg := e.m.Clone().Submit(h); reorg {
						sqlLevel = true
						f.armed = false
						_, _ = st.DB.Exec(`UPDATE verif_c13 SET armed = 1`)
					}
				}
				res := st.Add(h)
				fired := f.fired
				*f = relabelFault{}
				if sqlLevel {
					_, _ = st.DB.Exec(`UPDATE verif_c13 SET armed = 0`)
					fired = true
					r.Count("relabel_failures_inside_sqlite", 1)
				}
				if !fired {
					out, _, _ := e.m.Submit(h)
					if res.Panic != nil || res.Code() != mb.WantCode(out) {
						r.Count("stores_skipped_ingest_divergence", 1)
						return
					}
					continue
				}
				failedAt = append(failedAt, k)
				r.Count("reorganisations_interrupted_by_a_failing_relabel", 1)
				if res.Panic != nil {
					r.Count("stores_skipped_ingest_divergence", 1)
					return
				}
				if !e.structural() {
					return
				}
				if res.Code() == "stored" {
					r.Count("stores_skipped_ingest_divergence", 1) // answered as stored although a relabelling statement failed: C05's business
					return
				}
				// redelivery, as a peer would
				res = st.Add(h)
				out, _, _ := e.m.Submit(h)
				if res.Panic != nil || res.Code() != mb.WantCode(out) {
					r.Count("faulted_stores_not_recovered_by_redelivery", 1) // C05's business
					return
				}
				t, err := snap.TakeHeaders(st.DB)
				if err != nil {
					r.Violate("harness|snapshot", err.Error(), caseID, nil)
					return
				}
				if len(mb.CompareTable(e.m, t, true)) > 0 {
					r.Count("faulted_stores_not_recovered_by_redelivery", 1) // C05's business
					return
				}
				e.locator()
				for q := 0; q < 10 && !e.failed; q++ {
					e.getHeaders(e.genQuery(rng))
				}
				if e.failed {
					return
				}
				r.Count("answers_compared_with_the_model_after_redelivery", 1)
			}
		})
	}
}

// structural: whatever the labels are, the locator and a getheaders answer describe ONE hash-linked chain.
func (e *env) structural() bool {
	loc := e.st.Svc.Headers.LatestHeaderLocator()
	var prev *refmodel.Node
	for i, h := range loc {
		if h == nil {
			e.violate("faulted|locator|nil-entry", fmt.Sprintf("locator entry %d is nil", i), nil)
			return false
		}
		n := e.m.Nodes[refmodel.Hash(*h)]
		if n == nil {
			e.violate("faulted|locator|unknown-hash", fmt.Sprintf("locator entry %d (%s) is not a stored header", i, h), nil)
			return false
		}
		if prev != nil && (n.Height >= prev.Height || !refmodel.IsAncestor(n, prev)) {
			e.violate("faulted|locator|not-one-chain", fmt.Sprintf("after an interrupted reorganisation locator entry %d (%s, height %d) is not an ancestor of entry %d (%s, height %d)", i, n.Hash, n.Height, i-1, prev.Hash, prev.Height), nil)
			return false
		}
		prev = n
	}
	if len(loc) > 0 && prev.Height != 0 {
		e.violate("faulted|locator|no-genesis", "after an interrupted reorganisation the locator does not end at genesis", nil)
		return false
	}
	g := chainhash.Hash(e.m.Genesis.Hash)
	var stop chainhash.Hash
	got, err := e.st.Svc.Headers.LocateHeadersGetHeaders([]*chainhash.Hash{&g}, &stop)
	if err == nil {
		last := e.m.Genesis.Hash
		for i, h := range got {
			if h == nil {
				e.violate("faulted|getheaders|nil-header", "LocateHeadersGetHeaders returned a nil header", nil)
				return false
			}
			if refmodel.Hash(h.PrevBlock) != last {
				e.violate("faulted|getheaders|not-linked", fmt.Sprintf("after an interrupted reorganisation header %d of the answer from genesis does not build on header %d", i, i-1), nil)
				return false
			}
			last = refmodel.Hash(h.BlockHash())
		}
	}
	e.r.Count("interrupted_states_checked_for_one_linked_chain", 1)
	e.r.Cases(1)
	return true
}

var _ = ev.Spec{}

// otherNetworks: the same questions on stores of the other networks the service can be configured for (their genesis
// blocks differ from main net's): in particular a getheaders whose stop hash is THAT network's genesis block.
func otherNetworks(r *ev.Run) {
	nets := []struct {
		name string
		typ  config.NetworkType
		p    *chaincfg.Params
	}{{"testnet", config.TestNet, &chaincfg.TestNet3Params}, {"regtest", config.RegTestNet, &chaincfg.RegressionNetParams}, {"simnet", config.SimulationNet, &chaincfg.SimNetParams}}
	for _, nt := range nets {
		nt := nt
		caseID := "net/" + nt.name
		r.Do(caseID, func() {
			st, err := rig.New(rig.Options{Dir: r.Scratch, Name: "c13-" + nt.name + ".db", NoHTTP: true, Config: func(c *config.AppConfig) { c.P2P.ChainNetType = nt.typ }})
			if err != nil {
				r.Violate("harness|rig", err.Error(), caseID, nil)
				return
			}
			defer st.Destroy()
			g := nt.p.GenesisBlock.Header
			gh := refmodel.Hdr{Version: 1, Prev: refmodel.Hash(g.PrevBlock), Merkle: refmodel.Hash(g.MerkleRoot), Time: uint32(g.Timestamp.Unix()), Bits: g.Bits, Nonce: g.Nonce}
			if stored := st.Svc.Headers.GetTip(); stored == nil || refmodel.Hash(stored.Hash) != gh.HashOf() {
				r.Count("other_network_stores_skipped_genesis_differs", 1) // the store's genesis row is not what this harness derives: nothing to judge
				return
			}
			m := refmodel.New(gh)
			e := &env{r: r, st: st, m: m, caseID: caseID, desc: map[string]any{"network": nt.name}}
			rng := r.Rand(caseID)
			hist := gen.Random(rng, gh, gen.Opts{N: 40 + rng.Intn(40), PFork: 0.2, PUnknown: 0.03, Classes: "MH"})
			if !e.ingest(hist) {
				return
			}
			e.locator()
			// stop = this network's genesis, from several starting points
			for _, loc := range [][]refmodel.Hash{{m.Genesis.Hash}, {m.Best().Hash}, {m.LongestPath()[len(m.LongestPath())/2].Hash}} {
				e.getHeaders(query{loc: loc, stop: m.Genesis.Hash, locClass: "L", stopClass: "genesis"})
			}
			for k := 0; k < 60 && !e.failed; k++ {
				e.getHeaders(e.genQuery(rng))
			}
			if !e.failed {
				r.Count("stores_of_other_networks_questioned", 1)
			}
		})
	}
}
