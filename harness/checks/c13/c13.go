// Package c13: block locators and getheaders answers describe the longest chain correctly.
package c13

import (
	"fmt"
	"math/rand"
	"strings"
	"time"

	"github.com/bitcoin-sv/block-headers-service/internal/chaincfg/chainhash"
	"github.com/bitcoin-sv/block-headers-service/internal/wire"
	"github.com/bitcoin-sv/block-headers-service/verifharness/ev"
	"github.com/bitcoin-sv/block-headers-service/verifharness/gen"
	"github.com/bitcoin-sv/block-headers-service/verifharness/mb"
	"github.com/bitcoin-sv/block-headers-service/verifharness/p2prig"
	"github.com/bitcoin-sv/block-headers-service/verifharness/refmodel"
	"github.com/bitcoin-sv/block-headers-service/verifharness/rig"
)

// Spec registers the check.
func Spec() ev.Spec {
	return ev.Spec{Prop: "C13", Level: "exploration", Workers: -1, Body: body}
}

const maxHeaders = 2000

type env struct {
	r      *ev.Run
	st     *rig.Stack
	m      *refmodel.Model
	caseID string
	desc   map[string]any
	failed bool
	// the previous answers, as handed out (the slices themselves) and as they read then: an answer belongs to whoever asked
	// for it (the server queues it for a peer) and must not change when the next question is answered
	prevPtrs  []*wire.BlockHeader
	prevFlat  []wire.BlockHeader
	prevHash1 []refmodel.Hash
	prevHash2 []refmodel.Hash
}

func hashOfWire(h *wire.BlockHeader) refmodel.Hash { return refmodel.Hash(h.BlockHash()) }

func (e *env) violate(sig, what string, extra map[string]any) {
	e.failed = true
	d := map[string]any{}
	for k, v := range e.desc {
		d[k] = v
	}
	for k, v := range extra {
		d[k] = v
	}
	e.r.Violate(sig, what, e.caseID, d)
}

// CheckLocatorShape validates a locator (as heights on the longest chain): starts at tip, strictly
// descending, single steps first then doubling steps, ends at genesis. Returns "" or a description.
func CheckLocatorShape(hs []int32, tip int32) string {
	if len(hs) == 0 {
		return "empty locator"
	}
	if hs[0] != tip {
		return fmt.Sprintf("first entry at height %d, tip is %d", hs[0], tip)
	}
	if hs[len(hs)-1] != 0 {
		return fmt.Sprintf("last entry at height %d, not genesis", hs[len(hs)-1])
	}
	doubling := false
	prevStep := int32(0)
	for i := 0; i+1 < len(hs); i++ {
		step := hs[i] - hs[i+1]
		if step <= 0 {
			return fmt.Sprintf("heights not strictly descending at entry %d (%d -> %d)", i, hs[i], hs[i+1])
		}
		last := i+2 == len(hs)
		switch {
		case !doubling && step == 1:
		case !doubling && step == 2 && i > 0:
			doubling = true
		case doubling && step == 2*prevStep:
		case last && hs[i+1] == 0 && ((!doubling && step <= 2) || (doubling && step <= 2*prevStep)):
			// final step clamped at genesis
		default:
			return fmt.Sprintf("step %d at entry %d (after step %d) is neither a single step nor a doubling", step, i, prevStep)
		}
		if doubling || step == 1 {
			prevStep = step
		}
	}
	return ""
}

func (e *env) locator() {
	loc := e.st.Svc.Headers.LatestHeaderLocator()
	tip := e.m.Best().Height
	var hs []int32
	for i, h := range loc {
		if h == nil {
			e.violate("locator|nil-entry", fmt.Sprintf("locator entry %d is nil", i), nil)
			return
		}
		n := e.m.Nodes[refmodel.Hash(*h)]
		if n == nil {
			e.violate("locator|unknown-hash", fmt.Sprintf("locator entry %d (%s) is not a stored header", i, h), nil)
			return
		}
		if n.State != refmodel.Longest {
			e.violate("locator|non-longest|"+n.State, fmt.Sprintf("locator entry %d (%s, height %d) is %s", i, h, n.Height, n.State), nil)
			return
		}
		hs = append(hs, n.Height)
	}
	if bad := CheckLocatorShape(hs, tip); bad != "" {
		kind := strings.Fields(bad)[0]
		e.violate("locator|shape|"+kind, fmt.Sprintf("locator heights %v for tip %d: %s", hs, tip, bad), nil)
		return
	}
	// reference sequence (10 single steps, then doubling) is recorded, not asserted: the statement does not fix the count
	ref := refmodel.LocatorHeights(tip)
	same := len(ref) == len(hs)
	for i := 0; same && i < len(ref); i++ {
		same = ref[i] == hs[i]
	}
	if same {
		e.r.Count("locators_equal_to_10-single-steps_reference", 1)
	}
	e.r.Count("locators_checked", 1)
	e.r.Distinct(fmt.Sprintf("locator|len=%d", len(hs)))
}

type query struct {
	loc       []refmodel.Hash
	stop      refmodel.Hash
	locClass  string
	stopClass string
}

func (e *env) pickNode(rng *rand.Rand, state string) *refmodel.Node {
	var c []*refmodel.Node
	for _, n := range e.m.Order {
		if n.State == state {
			c = append(c, n)
		}
	}
	if len(c) == 0 {
		return nil
	}
	return c[rng.Intn(len(c))]
}

func (e *env) genQuery(rng *rand.Rand) query {
	var q query
	path := e.m.LongestPath()
	var classes []string
	n := 1 + rng.Intn(6)
	if rng.Intn(10) == 0 {
		n = 10 + rng.Intn(30)
	}
	if rng.Intn(25) == 0 {
		n = 101 + rng.Intn(400) // up to the wire limit of 500 locator hashes
	}
	for i := 0; i < n; i++ {
		switch rng.Intn(6) {
		case 0, 1:
			nd := path[rng.Intn(len(path))]
			if rng.Intn(3) == 0 { // near the tip
				nd = path[len(path)-1-rng.Intn(min(len(path), 5))]
			}
			q.loc = append(q.loc, nd.Hash)
			classes = append(classes, "L")
		case 2:
			if nd := e.pickNode(rng, refmodel.Stale); nd != nil {
				q.loc = append(q.loc, nd.Hash)
				classes = append(classes, "S")
			}
		case 3:
			if nd := e.pickNode(rng, refmodel.Orphan); nd != nil {
				q.loc = append(q.loc, nd.Hash)
				classes = append(classes, "O")
			}
		case 4:
			var h refmodel.Hash
			rng.Read(h[:])
			q.loc = append(q.loc, h)
			classes = append(classes, "U")
		default:
			q.loc = append(q.loc, e.m.Genesis.Hash)
			classes = append(classes, "G")
		}
	}
	if len(q.loc) == 0 {
		q.loc = append(q.loc, e.m.Genesis.Hash)
		classes = append(classes, "G")
	}
	if rng.Intn(12) == 0 { // the service's own locator
		q.loc = q.loc[:0]
		for _, h := range e.st.Svc.Headers.LatestHeaderLocator() {
			q.loc = append(q.loc, refmodel.Hash(*h))
		}
		classes = []string{"own"}
	}
	set := map[string]bool{}
	for _, c := range classes {
		set[c] = true
	}
	for _, c := range []string{"L", "S", "O", "U", "G", "own"} {
		if set[c] {
			q.locClass += c
		}
	}
	// start height per the model
	start := int32(0)
	for _, l := range q.loc {
		if nd, ok := e.m.Nodes[l]; ok && nd.State == refmodel.Longest && nd.Height > start {
			start = nd.Height
		}
	}
	tip := e.m.Best().Height
	switch rng.Intn(10) {
	case 0, 1, 2:
		q.stopClass = "zero"
	case 3, 4:
		if start < tip {
			h := start + 1 + int32(rng.Intn(int(tip-start)))
			q.stop, q.stopClass = path[h].Hash, "ahead"
		} else {
			q.stopClass = "zero"
		}
	case 5:
		if start > 1 {
			h := 1 + int32(rng.Intn(int(start-1)))
			q.stop, q.stopClass = path[h].Hash, "behind"
		} else {
			q.stopClass = "zero"
		}
	case 6:
		if start > 0 {
			q.stop, q.stopClass = path[start].Hash, "equal-start"
		} else {
			q.stopClass = "zero"
		}
	case 7:
		q.stop, q.stopClass = e.m.Genesis.Hash, "genesis"
	case 8:
		if nd := e.pickNode(rng, []string{refmodel.Stale, refmodel.Orphan}[rng.Intn(2)]); nd != nil {
			q.stop, q.stopClass = nd.Hash, "non-longest"
		} else {
			q.stopClass = "zero"
		}
	default:
		rng.Read(q.stop[:])
		q.stopClass = "unknown"
	}
	return q
}

func hexes(hs []refmodel.Hash) []string {
	out := make([]string, len(hs))
	for i, h := range hs {
		out[i] = h.String()
	}
	return out
}

func (e *env) getHeaders(q query) {
	want := e.m.GetHeaders(q.loc, q.stop, maxHeaders)
	loc := make([]*chainhash.Hash, len(q.loc))
	for i := range q.loc {
		h := chainhash.Hash(q.loc[i])
		loc[i] = &h
	}
	stop := chainhash.Hash(q.stop)
	cls := q.locClass + "|stop=" + q.stopClass
	startCls := "start=genesis"
	for _, l := range q.loc {
		if nd, ok := e.m.Nodes[l]; ok && nd.State == refmodel.Longest && nd.Height > 0 {
			startCls = "start=on-longest"
		}
	}
	vcls := startCls + "|stop=" + q.stopClass // violation signatures: coarse, one per root cause
	extra := map[string]any{"locator": hexes(q.loc), "stop": q.stop.String()}
	e.r.Distinct("getheaders|" + cls)
	e.r.Count("getheaders_stop_"+q.stopClass, 1)

	check := func(api string, got []wire.BlockHeader) bool {
		if len(got) != len(want) {
			kind := "too-few"
			if len(got) > len(want) {
				kind = "too-many"
			}
			first := "none"
			if len(got) > 0 {
				first = refmodel.Hash(got[0].BlockHash()).String()
			}
			e.violate("getheaders|"+vcls+"|"+kind, fmt.Sprintf("%s returned %d headers (first %s), expected %d (locator classes %s, stop %s)", api, len(got), first, len(want), q.locClass, q.stopClass), extra)
			return false
		}
		for i := range want {
			g := refmodel.Hdr{Version: got[i].Version, Prev: refmodel.Hash(got[i].PrevBlock), Merkle: refmodel.Hash(got[i].MerkleRoot), Time: uint32(got[i].Timestamp.Unix()), Bits: got[i].Bits, Nonce: got[i].Nonce}
			if g.HashOf() != want[i].Hash {
				e.violate("getheaders|"+vcls+"|wrong-header", fmt.Sprintf("%s header %d is %s, expected %s (height %d)", api, i, g.HashOf(), want[i].Hash, want[i].Height), extra)
				return false
			}
		}
		return true
	}
	got1, err := e.st.Svc.Headers.LocateHeadersGetHeaders(loc, &stop)
	flat := make([]wire.BlockHeader, 0, len(got1))
	for _, h := range got1 {
		if h == nil {
			e.violate("getheaders|nil-header", "LocateHeadersGetHeaders returned a nil header", extra)
			return
		}
		flat = append(flat, *h)
	}
	if err != nil && len(want) > 0 {
		e.violate("getheaders|"+vcls+"|error", fmt.Sprintf("LocateHeadersGetHeaders failed (%v), expected %d headers", err, len(want)), extra)
		return
	}
	if !check("LocateHeadersGetHeaders", flat) {
		return
	}
	got2 := e.st.Svc.Headers.LocateHeaders(loc, &stop)
	if !check("LocateHeaders", got2) {
		return
	}
	checkPrev := func() bool {
		// after this question has been answered, the previous answers still read as they did
		for i, h := range e.prevPtrs {
			if h == nil || hashOfWire(h) != e.prevHash1[i] {
				e.violate("getheaders|earlier-answer-changed|LocateHeadersGetHeaders", fmt.Sprintf("header %d of the answer to the previous question changed when the next question was answered", i), extra)
				return false
			}
		}
		for i := range e.prevFlat {
			if hashOfWire(&e.prevFlat[i]) != e.prevHash2[i] {
				e.violate("getheaders|earlier-answer-changed|LocateHeaders", fmt.Sprintf("header %d of the answer to the previous question changed when the next question was answered", i), extra)
				return false
			}
		}
		return true
	}
	if !checkPrev() {
		return
	}
	func(p1 []*wire.BlockHeader, p2 []wire.BlockHeader) {
		e.prevPtrs, e.prevFlat, e.prevHash1, e.prevHash2 = p1, p2, nil, nil
		for _, h := range p1 {
			e.prevHash1 = append(e.prevHash1, hashOfWire(h))
		}
		for i := range p2 {
			e.prevHash2 = append(e.prevHash2, hashOfWire(&p2[i]))
		}
	}(got1, got2)
	if len(want) > 0 {
		e.r.Count("getheaders_nonempty_answers", 1)
	} else {
		e.r.Count("getheaders_empty_answers", 1)
	}
	if len(want) == maxHeaders {
		e.r.Count("getheaders_capped_at_2000", 1)
	}
	e.r.Cases(1)
}

func (e *env) emptyLocator() {
	var stop chainhash.Hash
	hs, err := e.st.Svc.Headers.LocateHeadersGetHeaders(nil, &stop)
	if err == nil && len(hs) > 0 {
		e.violate("getheaders|empty-locator|answered", "an empty locator was answered with headers", nil)
	}
	_ = e.st.Svc.Headers.LocateHeaders(nil, &stop)
}

// buildLong builds a long chain with stale branches forking exactly at locator heights and some orphans.
func buildLong(rng *rand.Rand, length int) gen.History {
	g := rig.Genesis()
	var out gen.History
	counter := 0
	mk := func(prev refmodel.Hash, bits uint32) refmodel.Hdr {
		counter++
		h := refmodel.Hdr{Prev: prev, Bits: bits}
		gen.Fields(rng, &h, false, counter)
		return h
	}
	hashes := []refmodel.Hash{g.HashOf()}
	for i := 0; i < length; i++ {
		h := mk(hashes[len(hashes)-1], gen.BitsNormal)
		out.Hdrs = append(out.Hdrs, h)
		hashes = append(hashes, h.HashOf())
	}
	// stale branches at the locator heights of the final tip (and one above / below)
	for _, lh := range refmodel.LocatorHeights(int32(length)) {
		for _, d := range []int32{-1, 0} {
			at := lh + d
			if at < 0 || int(at) >= length || rng.Intn(3) == 0 {
				continue
			}
			prev := hashes[at]
			for k := 0; k < 1+rng.Intn(2); k++ {
				h := mk(prev, gen.BitsLight)
				out.Hdrs = append(out.Hdrs, h)
				prev = h.HashOf()
			}
		}
	}
	for k := 0; k < 5; k++ {
		var unk refmodel.Hash
		rng.Read(unk[:])
		h := mk(unk, gen.BitsNormal)
		out.Hdrs = append(out.Hdrs, h)
		out.Hdrs = append(out.Hdrs, mk(h.HashOf(), gen.BitsNormal))
	}
	return out
}

func min(a, b int) int {
	if a < b {
		return a
	}
	return b
}

func (e *env) ingest(hist gen.History) bool {
	for _, h := range hist.Hdrs {
		si := mb.Step(e.st, e.m, h)
		if si.Res.Panic != nil || si.Res.Code() != mb.WantCode(si.Outcome) {
			e.r.Count("stores_skipped_ingest_divergence", 1)
			return false
		}
	}
	return true
}

func body(r *ev.Run) {
	r.Rule("stores = seeded random histories (forks, stale branches, orphans, reorganisations; every third one with block times, versions and nonces from all over their ranges - times are not monotonic along a chain) plus long chains (300 / 2100 quick, + 5000 thorough) with stale branches forking exactly at the locator heights and orphans. Random stores are questioned in up to 4 stages while they grow, earlier questions being asked again after later ingestion (incl. reorganisations). Per store: LatestHeaderLocator checked (starts at tip, only longest-chain hashes, strictly descending, single steps then doubling, ends at genesis; also after every extension of a growing chain for tips 0..40), and seeded getheaders queries: locators mixing longest/stale/orphan/unknown/genesis hashes in any order or the service's own locator, stops in {zero, ahead, behind, equal to start, genesis, stale/orphan, unknown}; both LocateHeadersGetHeaders and LocateHeaders compared header-by-header with the model answer. plus (d) wire level: the real legacy server or the experimental engine, synced from a scripted node, is asked getheaders over TCP by that node (locators of known/unknown hashes, stops ahead / at-or-below start / unknown, chains beyond 2000) and its headers replies are compared with the honest chain. plus (e) stores whose reorganisations are interrupted by a failing relabel statement: until the redelivery the locator and the answer from genesis must still be one hash-linked chain of stored headers, after it they are compared with the model again. plus (g) stores filled by the start-up import of a prepared file (every second one after a first start whose import was refused for a damaged row), then extended and given two successively heavier competitors at the tip height, questioned after each step and after a restart. plus (h) stores after a reorganisation over 501 heights (thorough: 499..2001). plus (f) stores configured for testnet / regtest / simnet (their own genesis blocks), incl. stop = that network's genesis. evaluations = getheaders queries; distinct = (locator class set, stop class) cells + locator lengths; non-trivial = all.")
	r.Assume("the number of single steps before doubling is not fixed by the statement: any count is accepted, the 10-step reference is only recorded", "reference model transcribes the statement", "SQLite only")
	r.Require("getheaders_capped_at_2000", 1)
	r.Require("getheaders_stop_ahead", 50)
	r.Require("locators_checked", 50)
	r.Require("interrupted_states_checked_for_one_linked_chain", 20)
	r.Require("stores_of_other_networks_questioned", 3)
	r.Require("stores_questioned_again_after_a_reorganisation", 5)
	r.Require("wire_getheaders_answered", 50)
	mb.ForbiddenHeaders()
	st, err := rig.New(rig.Options{Dir: r.Scratch, NoHTTP: true})
	if err != nil {
		r.Violate("harness|rig", err.Error(), "", nil)
		return
	}
	defer st.Destroy()
	// (a) growing chain: locator after every extension for tips 0..45
	r.Do("grow", func() {
		_ = st.Reset()
		e := &env{r: r, st: st, m: mb.NewModel(), caseID: "grow", desc: map[string]any{"store": "linear chain grown one header at a time"}}
		rng := r.Rand("grow")
		e.locator()
		for i := 0; i < 45 && !e.failed; i++ {
			h := refmodel.Hdr{Prev: e.m.Best().Hash, Bits: gen.BitsNormal}
			gen.Fields(rng, &h, false, i+1)
			if !e.ingest(gen.History{Hdrs: []refmodel.Hdr{h}}) {
				return
			}
			e.desc["tip_height"] = i + 1
			e.locator()
		}
	})
	// (h) stores after a reorganisation over 500+ heights (the sizes at which relabelling statements get batched)
	deeps := []int{501}
	if r.Thorough() {
		deeps = []int{499, 500, 501, 1000, 1001, 2001}
	}
	for _, d := range deeps {
		caseID := fmt.Sprintf("deep/%d", d)
		r.Do(caseID, func() {
			_ = st.Reset()
			rng := r.Rand(caseID)
			e := &env{r: r, st: st, m: mb.NewModel(), caseID: caseID, desc: map[string]any{"store": fmt.Sprintf("after a reorganisation over %d heights", d)}}
			if !e.ingest(gen.DeepReorg(rng, rig.Genesis(), 2+rng.Intn(5), d)) {
				return
			}
			e.locator()
			path := e.m.LongestPath()
			for _, loc := range [][]refmodel.Hash{{e.m.Genesis.Hash}, {path[len(path)/2].Hash}, {path[1].Hash}} {
				e.getHeaders(query{loc: loc, stop: refmodel.Hash{}, locClass: "L", stopClass: "zero"})
			}
			for k := 0; k < 80 && !e.failed; k++ {
				e.getHeaders(e.genQuery(rng))
			}
			if !e.failed {
				r.Count("stores_after_a_deep_reorganisation_questioned", 1)
			}
		})
	}
	// (b) long chains
	longs := []int{300, 2100}
	if r.Thorough() {
		longs = append(longs, 5000, 4097, 2011)
	}
	for _, L := range longs {
		const shards = 8
		for sh := 0; sh < shards; sh++ {
			caseID := fmt.Sprintf("long/%d/%d", L, sh)
			r.Do(caseID, func() {
				hist := buildLong(r.Rand(fmt.Sprintf("long/%d", L)), L) // same store in every shard
				rng := r.Rand(caseID)
				_ = st.Reset()
				e := &env{r: r, st: st, m: mb.NewModel(), caseID: caseID, desc: map[string]any{"store": fmt.Sprintf("buildLong(seeded, %d): linear chain + stale branches at locator heights + orphans", L)}}
				if !e.ingest(hist) {
					return
				}
				e.locator()
				e.emptyLocator()
				nq := r.Pick(1600, 20000) / shards
				for i := 0; i < nq && !e.failed; i++ {
					e.getHeaders(e.genQuery(rng))
				}
				// genesis-only locator with zero stop: the 2000 cap
				e.getHeaders(query{loc: []refmodel.Hash{e.m.Genesis.Hash}, locClass: "G", stopClass: "zero"})
			})
		}
	}
	// (d) wire level: the real legacy server answers getheaders from a scripted node (serverpeer.OnGetHeaders)
	nWire := r.Pick(6, 60)
	for i := 0; i < nWire; i++ {
		caseID := fmt.Sprintf("wire/%d", i)
		r.Do(caseID, func() {
			rng := r.Rand(caseID)
			sc := &p2prig.Scenario{ID: caseID, Seed: rng.Int63(), Engine: "legacy", InitialStore: "genesis",
				HonestLen: 30 + rng.Intn(300), Nodes: []p2prig.NodeSpec{{Kind: "honest"}}, ServeQueries: r.Pick(40, 150)}
			if i%3 == 0 {
				sc.HonestLen = 2100 + rng.Intn(300) // answers capped at 2000
			}
			sc.CheckpointHeights = []int32{int32(1 + rng.Intn(sc.HonestLen-12))}
			if i%2 == 1 {
				// the experimental engine answers getheaders as well, once its checkpoints are behind it
				sc.Engine = "exp"
				if i%4 == 1 {
					sc.CheckpointHeights = nil
				}
			}
			res, crash := p2prig.RunScenarioChild(r.Scratch, sc, 200*time.Second)
			if res == nil {
				r.Violate("crash|wire-scenario", "the service process crashed during a wire-level getheaders scenario", caseID, map[string]any{"scenario": sc, "log_tail": crash})
				return
			}
			for k, v := range res.Counters {
				if strings.HasPrefix(k, "wire_getheaders") {
					r.Count(k, v)
				}
			}
			if res.Verdict == "inconclusive" {
				r.Inconclusive(caseID, res.What)
				return
			}
			for _, f := range res.Violations {
				if strings.HasPrefix(f.Sig, "served-headers|") {
					r.Violate(f.Sig, f.What, caseID, map[string]any{"scenario": sc})
				}
			}
			r.Cases(res.Counters["wire_getheaders_asked"])
			r.Distinct(fmt.Sprintf("wire|len>2000=%v", sc.HonestLen > 2000))
		})
	}
	// (e) reorganisations interrupted by a failing relabel statement
	faultedStores(r)
	// (f) stores of the other networks
	otherNetworks(r)
	importedStores(r)
	// (c) random stores
	nStores := r.Pick(120, 2000)
	for i := 0; i < nStores; i++ {
		caseID := fmt.Sprintf("s/%d", i)
		r.Do(caseID, func() {
			rng := r.Rand(caseID)
			o := gen.Opts{
				N:        5 + rng.Intn(r.Pick(80, 200)),
				PDup:     0.02,
				PUnknown: []float64{0.03, 0.1}[rng.Intn(2)],
				PLate:    []float64{0, 0.08}[rng.Intn(2)],
				PFork:    []float64{0.15, 0.4}[rng.Intn(2)],
				Classes:  []string{"M", "MH", "MHL", "MHLZ"}[rng.Intn(4)],
				// every third store: versions, nonces and TIMES from all over their ranges (block times are not monotonic
				// along a chain)
				FieldExtreme: i%3 == 1,
			}
			hist := gen.Random(rng, rig.Genesis(), o)
			_ = st.Reset()
			e := &env{r: r, st: st, m: mb.NewModel(), caseID: caseID, desc: map[string]any{"history_hex": hist.Hex()}}
			// the store is questioned while it grows: after each part of the history new questions are asked and earlier
			// ones are asked again (a stop or locator hash that was on the longest chain may be on a stale branch by now)
			parts := 1 + rng.Intn(4)
			var asked []query
			for p := 0; p < parts && !e.failed; p++ {
				lo, hi := len(hist.Hdrs)*p/parts, len(hist.Hdrs)*(p+1)/parts
				best := e.m.Best()
				if !e.ingest(gen.History{Hdrs: hist.Hdrs[lo:hi]}) {
					return
				}
				if p > 0 && !refmodel.IsAncestor(best, e.m.Best()) {
					r.Count("stores_questioned_again_after_a_reorganisation", 1)
				}
				e.locator()
				e.emptyLocator()
				for k := 0; k < 40 && k < len(asked) && !e.failed; k++ {
					q := asked[rng.Intn(len(asked))]
					q.locClass, q.stopClass = "asked-before", "asked-before"
					e.getHeaders(q)
					r.Count("queries_asked_again_later", 1)
				}
				for k := 0; k < 200/parts && !e.failed; k++ {
					q := e.genQuery(rng)
					asked = append(asked, q)
					e.getHeaders(q)
				}
			}
			if r.WantSample() && len(hist.Hdrs) < 15 && !e.failed {
				q := e.genQuery(rng)
				r.Sample(map[string]any{"case": caseID, "history_hex": hist.Hex(), "example_query": map[string]any{"locator": hexes(q.loc), "stop": q.stop.String(), "expected_headers": len(e.m.GetHeaders(q.loc, q.stop, maxHeaders))}})
			}
		})
	}
}
