package c13

import (
	"bytes"
	"compress/gzip"
	"fmt"
	"io"
	"os"
	"path/filepath"
	"strings"

	"github.com/bitcoin-sv/block-headers-service/config"
	"github.com/bitcoin-sv/block-headers-service/database"
	"github.com/bitcoin-sv/block-headers-service/internal/chaincfg"
	"github.com/bitcoin-sv/block-headers-service/internal/chaincfg/chainhash"
	"github.com/bitcoin-sv/block-headers-service/verifharness/ev"
	"github.com/bitcoin-sv/block-headers-service/verifharness/gen"
	"github.com/bitcoin-sv/block-headers-service/verifharness/mb"
	"github.com/bitcoin-sv/block-headers-service/verifharness/refmodel"
	"github.com/bitcoin-sv/block-headers-service/verifharness/rig"
	"github.com/rs/zerolog"
)

// importedStores: (g) a store that was filled by the start-up import of a prepared file - after a first start whose
// import was refused because the file was damaged (every second case) - and then grows by ingestion: extensions, and a
// heavier competitor that replaces the tip AT THE SAME HEIGHT (the displaced header was written first). Locator and
// getheaders answers are judged as for every other store, also after a restart.
func importedStores(r *ev.Run) {
	for i := 0; i < r.Pick(2, 8); i++ {
		i := i
		caseID := fmt.Sprintf("imported/%d", i)
		r.Do(caseID, func() { importedStore(r, caseID, i) })
	}
}

func importedStore(r *ev.Run, caseID string, i int) {
	rng := r.Rand(caseID)
	work := filepath.Join(r.Scratch, "c13-import")
	if err := os.MkdirAll(work, 0o755); err != nil {
		r.Violate("harness|scratch", err.Error(), caseID, nil)
		return
	}
	defer os.RemoveAll(work)
	// the export writes $TMPDIR/headers.csv and the import resolves the prepared file relative to the cwd
	oldWd, _ := os.Getwd()
	oldTmp, hadTmp := os.LookupEnv("TMPDIR")
	_ = os.Setenv("TMPDIR", work)
	if err := os.Chdir(work); err != nil {
		r.Violate("harness|chdir", err.Error(), caseID, nil)
		return
	}
	oldCps := config.Checkpoints
	defer func() {
		config.Checkpoints = oldCps
		_ = os.Chdir(oldWd)
		if hadTmp {
			_ = os.Setenv("TMPDIR", oldTmp)
		} else {
			_ = os.Unsetenv("TMPDIR")
		}
	}()
	// the import's fmt.Printf lines stay off the verdict output
	if null, err := os.OpenFile(os.DevNull, os.O_WRONLY, 0); err == nil {
		old := os.Stdout
		os.Stdout = null
		defer func() { os.Stdout = old; _ = null.Close() }()
	}

	L := 501 + rng.Intn(300)
	counter := 0
	mk := func(prev refmodel.Hash, bits uint32) refmodel.Hdr {
		counter++
		h := refmodel.Hdr{Prev: prev, Bits: bits}
		gen.Fields(rng, &h, false, counter)
		return h
	}
	a, err := rig.New(rig.Options{Dir: work, Name: "A.db", NoHTTP: true})
	if err != nil {
		r.Violate("harness|rig", err.Error(), caseID, nil)
		return
	}
	mA := mb.NewModel()
	prev := rig.Genesis().HashOf()
	for k := 0; k < L; k++ {
		h := mk(prev, gen.BitsNormal)
		si := mb.Step(a, mA, h)
		if si.Res.Panic != nil || si.Res.Code() != mb.WantCode(si.Outcome) {
			a.Destroy()
			r.Count("stores_skipped_ingest_divergence", 1)
			return
		}
		prev = h.HashOf()
	}
	a.Close()
	cfg := rig.NewConfig(a.Path)
	cfg.Db.PreparedDbFilePath = "prepared.csv.gz"
	lg := zerolog.Nop()
	if err := database.ExportHeaders(cfg, &lg); err != nil {
		a.Destroy()
		r.Count("imported_stores_skipped_export_failed", 1) // C17's business
		return
	}
	a.Destroy()
	good, err := os.ReadFile("prepared.csv.gz")
	if err != nil {
		r.Count("imported_stores_skipped_export_failed", 1)
		return
	}
	path := mA.LongestPath()
	tip := path[len(path)-1]
	th := chainhash.Hash(tip.Hash)
	config.Checkpoints = []chaincfg.Checkpoint{{Height: tip.Height, Hash: &th}}
	openB := func() (*rig.Stack, error) {
		return rig.New(rig.Options{Dir: work, Name: "B.db", NoHTTP: true, Config: func(c *config.AppConfig) {
			c.Db.PreparedDb = true
			c.Db.PreparedDbFilePath = "prepared.csv.gz"
		}})
	}
	refusedFirst := i%2 == 0
	if refusedFirst {
		// a first start with a damaged copy of the file: one field of a row in the second batch is not a number
		zr, err := gzip.NewReader(bytes.NewReader(good))
		if err != nil {
			r.Count("imported_stores_skipped_export_failed", 1)
			return
		}
		txt, _ := io.ReadAll(zr)
		lines := strings.Split(strings.TrimRight(string(txt), "\n"), "\n")
		at := 502 + rng.Intn(len(lines)-503)
		f := strings.Split(lines[at], ",")
		f[len(f)-1] = "x" + f[len(f)-1]
		lines[at] = strings.Join(f, ",")
		var buf bytes.Buffer
		zw := gzip.NewWriter(&buf)
		_, _ = zw.Write([]byte(strings.Join(lines, "\n") + "\n"))
		_ = zw.Close()
		if err := os.WriteFile("prepared.csv.gz", buf.Bytes(), 0o644); err != nil {
			r.Violate("harness|write", err.Error(), caseID, nil)
			return
		}
		if b0, err := openB(); err == nil {
			b0.Destroy()
			r.Count("imported_stores_skipped_damaged_file_accepted", 1) // C17's business
			return
		}
		r.Count("imported_stores_first_import_refused", 1)
		if err := os.WriteFile("prepared.csv.gz", good, 0o644); err != nil {
			r.Violate("harness|write", err.Error(), caseID, nil)
			return
		}
	}
	b, err := openB()
	if err != nil {
		r.Count("imported_stores_skipped_import_refused", 1) // C17's business
		return
	}
	defer b.Destroy()
	mB := mb.NewModel()
	for _, n := range path[1:] {
		mB.Submit(n.Hdr)
	}
	e := &env{r: r, st: b, m: mB, caseID: caseID, desc: map[string]any{"imported_headers": len(path) - 1, "first_import_refused": refusedFirst}}
	question := func(stage string) bool {
		e.desc["stage"] = stage
		e.locator()
		e.getHeaders(query{loc: []refmodel.Hash{mB.Genesis.Hash}, stop: refmodel.Hash{}, locClass: "L", stopClass: "zero"})
		for k := 0; k < 25 && !e.failed; k++ {
			e.getHeaders(e.genQuery(rng))
		}
		return !e.failed
	}
	if !question("after-import") {
		return
	}
	step := func(h refmodel.Hdr) bool {
		si := mb.Step(b, mB, h)
		if si.Res.Panic != nil || si.Res.Code() != mb.WantCode(si.Outcome) {
			r.Count("stores_skipped_ingest_divergence", 1)
			return false
		}
		return true
	}
	// two extensions, then a heavier competitor of the new tip (same parent, same height), then a competitor of THAT
	// one, heavier again; each displaced header stays in the table as a stale row written earlier
	parent := tip.Hash
	for k := 0; k < 2; k++ {
		h := mk(parent, gen.BitsNormal)
		if !step(h) {
			return
		}
		if k == 0 {
			parent = h.HashOf()
		}
	}
	if !question("after-extensions") {
		return
	}
	for _, bits := range []uint32{gen.BitsHeavy, 0x1c007fff} {
		if !step(mk(parent, bits)) {
			return
		}
		if !question("after-a-heavier-competitor-at-the-tip-height") {
			return
		}
	}
	if err := b.Restart(); err != nil {
		r.Violate("imported-store|restart-failed", err.Error(), caseID, e.desc)
		return
	}
	if !question("after-restart") {
		return
	}
	r.Count("imported_stores_questioned", 1)
}

var _ = ev.Spec{}
