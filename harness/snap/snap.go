// Package snap takes row-level snapshots of the tables through raw SQL (not
// through the repository under test) and implements the structural invariant
// and the immutability monitor.
package snap

import (
	"crypto/sha256"
	"encoding/hex"
	"fmt"
	"sort"
	"strings"
	"time"

	"github.com/jmoiron/sqlx"
)

// Row is one row of the headers table, every column rendered canonically.
type Row struct {
	Hash, Prev, Merkle string
	Height             int64
	Version            int64
	Nonce              int64
	Bits               string
	Chainwork          string
	CumWork            string
	TimeUnix           int64
	TimeNanos          int64
	State              string
}

// Immutable renders every column except header_state.
func (r Row) Immutable() string {
	return fmt.Sprintf("%s|%s|%s|%d|%d|%d|%s|%s|%s|%d.%09d", r.Hash, r.Prev, r.Merkle, r.Height, r.Version, r.Nonce, r.Bits, r.Chainwork, r.CumWork, r.TimeUnix, r.TimeNanos)
}

func (r Row) String() string { return r.Immutable() + "|" + r.State }

// Headers is a snapshot of the headers table keyed by hash.
type Headers map[string]Row

func asString(v any) string {
	switch x := v.(type) {
	case nil:
		return "<NULL>"
	case []byte:
		return string(x)
	case string:
		return x
	case time.Time:
		return x.UTC().Format(time.RFC3339Nano)
	default:
		return fmt.Sprint(x)
	}
}

func asInt(v any) int64 {
	switch x := v.(type) {
	case int64:
		return x
	case int:
		return int64(x)
	case float64:
		return int64(x)
	case []byte:
		var n int64
		fmt.Sscan(string(x), &n)
		return n
	case string:
		var n int64
		fmt.Sscan(x, &n)
		return n
	}
	return -999999
}

// TakeHeaders reads the whole headers table.
func TakeHeaders(db *sqlx.DB) (Headers, error) {
	rows, err := db.Queryx(`SELECT hash, previous_block, merkleroot, height, version, nonce, bits, chainwork, cumulated_work, timestamp, header_state FROM headers`)
	if err != nil {
		return nil, err
	}
	defer rows.Close()
	out := Headers{}
	for rows.Next() {
		cols, err := rows.SliceScan()
		if err != nil {
			return nil, err
		}
		r := Row{
			Hash: asString(cols[0]), Prev: asString(cols[1]), Merkle: asString(cols[2]),
			Height: asInt(cols[3]), Version: asInt(cols[4]), Nonce: asInt(cols[5]),
			Bits: asString(cols[6]), Chainwork: asString(cols[7]), CumWork: asString(cols[8]),
			State: asString(cols[10]),
		}
		switch t := cols[9].(type) {
		case time.Time:
			r.TimeUnix, r.TimeNanos = t.Unix(), int64(t.Nanosecond())
		default:
			s := asString(t)
			parsed := false
			for _, layout := range []string{time.RFC3339Nano, "2006-01-02 15:04:05.999999999-07:00", "2006-01-02 15:04:05.999999999", "2006-01-02T15:04:05.999999999"} {
				if tt, err := time.Parse(layout, s); err == nil {
					r.TimeUnix, r.TimeNanos = tt.Unix(), int64(tt.Nanosecond())
					parsed = true
					break
				}
			}
			if !parsed {
				r.TimeUnix, r.TimeNanos = -1, int64(len(s))
			}
		}
		if _, dup := out[r.Hash]; dup {
			return nil, fmt.Errorf("duplicate primary key %s in headers snapshot", r.Hash)
		}
		out[r.Hash] = r
	}
	return out, rows.Err()
}

// Digest is a hash of the full canonical content.
func (h Headers) Digest() string {
	keys := make([]string, 0, len(h))
	for k := range h {
		keys = append(keys, k)
	}
	sort.Strings(keys)
	d := sha256.New()
	for _, k := range keys {
		d.Write([]byte(h[k].String()))
		d.Write([]byte{'\n'})
	}
	return hex.EncodeToString(d.Sum(nil))
}

// TableDigest digests any table by SELECT * ordered by all columns.
func TableDigest(db *sqlx.DB, table string) (string, int, error) {
	rows, err := db.Queryx(`SELECT * FROM ` + table)
	if err != nil {
		return "", 0, err
	}
	defer rows.Close()
	var lines []string
	for rows.Next() {
		cols, err := rows.SliceScan()
		if err != nil {
			return "", 0, err
		}
		parts := make([]string, len(cols))
		for i, c := range cols {
			parts[i] = asString(c)
		}
		lines = append(lines, strings.Join(parts, "|"))
	}
	sort.Strings(lines)
	d := sha256.Sum256([]byte(strings.Join(lines, "\n")))
	return hex.EncodeToString(d[:]), len(lines), rows.Err()
}

// AllDigest digests headers, tokens and webhooks together.
func AllDigest(db *sqlx.DB) (string, error) {
	var parts []string
	for _, t := range []string{"headers", "tokens", "webhooks"} {
		d, _, err := TableDigest(db, t)
		if err != nil {
			return "", err
		}
		parts = append(parts, d)
	}
	return strings.Join(parts, ":"), nil
}

// IChain checks the structural invariant: exactly one LONGEST_CHAIN row at every
// height 0..max, each parent-linked to the one below, genesis (zero previous
// hash) at height 0. Returns "" if it holds, else a description.
func (h Headers) IChain() string {
	byHeight := map[int64][]Row{}
	max := int64(-1)
	for _, r := range h {
		if r.State == "LONGEST_CHAIN" {
			byHeight[r.Height] = append(byHeight[r.Height], r)
			if r.Height > max {
				max = r.Height
			}
		}
	}
	if max < 0 {
		return "no LONGEST_CHAIN row at all"
	}
	for ht := int64(0); ht <= max; ht++ {
		rs := byHeight[ht]
		if len(rs) == 0 {
			return fmt.Sprintf("no LONGEST_CHAIN row at height %d (max %d)", ht, max)
		}
		if len(rs) > 1 {
			return fmt.Sprintf("%d LONGEST_CHAIN rows at height %d", len(rs), ht)
		}
		if ht == 0 {
			if strings.Trim(rs[0].Prev, "0") != "" {
				return "height-0 LONGEST_CHAIN row is not a genesis (non-zero previous hash)"
			}
			continue
		}
		if rs[0].Prev != byHeight[ht-1][0].Hash {
			return fmt.Sprintf("LONGEST_CHAIN row at height %d is not parent-linked to the one at height %d", ht, ht-1)
		}
	}
	for ht := range byHeight {
		if ht < 0 {
			return fmt.Sprintf("LONGEST_CHAIN row at negative height %d", ht)
		}
	}
	return ""
}

// Immutability is the monitor "once stored, no field except the state label
// changes and no row disappears".
type Immutability struct {
	seen map[string]string
}

// NewImmutability creates the monitor.
func NewImmutability() *Immutability { return &Immutability{seen: map[string]string{}} }

// Observe compares a snapshot with everything seen before; returns "" or a description.
func (m *Immutability) Observe(h Headers) string {
	for hash, im := range m.seen {
		r, ok := h[hash]
		if !ok {
			return fmt.Sprintf("row %s disappeared", hash)
		}
		if r.Immutable() != im {
			return fmt.Sprintf("row %s changed: was %s now %s", hash, im, r.Immutable())
		}
	}
	for hash, r := range h {
		if _, ok := m.seen[hash]; !ok {
			m.seen[hash] = r.Immutable()
		}
	}
	return ""
}

// Len is the number of rows tracked.
func (m *Immutability) Len() int { return len(m.seen) }
