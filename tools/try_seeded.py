#!/usr/bin/env python3
"""Confirm a seeded defect and run the property checks against it, in a scratch worktree (never in /repo).

usage: try_seeded.py <dir with patch.diff, demo/, meta.json> [--checks C01,C03] [--tier quick] [--keep] [--skip-suite]

Steps: scratch worktree of /repo HEAD -> apply patch -> build -> demo must FAIL -> revert -> demo must PASS ->
re-apply -> repository test suite must pass (hooks off) -> ./check <prop> must exit 1 with a VIOLATION line.
Prints one JSON object with the outcome.
"""
import json, os, shutil, subprocess, sys, tempfile

ENV = dict(os.environ, GOFLAGS="-mod=mod", GOPROXY="off")


def run(cmd, cwd, timeout=3600, env=None):
    p = subprocess.run(cmd, cwd=cwd, shell=True, stdout=subprocess.PIPE, stderr=subprocess.STDOUT, timeout=timeout, env=env or ENV)
    return p.returncode, p.stdout.decode(errors="replace")


def suite(wt):
    rc, out = run("go test -vet=off -count=1 -timeout 25m ./... 2>&1", wt)
    if rc == 0:
        return True, ""
    # port 8080 collisions between packages / other runs: retry failing packages one by one
    failed = [l.split()[1] for l in out.splitlines() if l.startswith("FAIL\t")]
    real = []
    for pkg in failed:
        ok = False
        for _ in range(4):
            rc2, out2 = run(f"go test -vet=off -count=1 {pkg} 2>&1", wt)
            if rc2 == 0:
                ok = True
                break
            if "address already in use" not in out2:
                break
        if not ok:
            real.append((pkg, out2[-1500:]))
    return (len(real) == 0), json.dumps(real)[:3000]


def main():
    d = os.path.abspath(sys.argv[1])
    args = sys.argv[2:]
    meta = json.load(open(os.path.join(d, "meta.json")))
    prop = meta["property"]
    checks = [prop]
    tier = "quick"
    keep = "--keep" in args
    skip_suite = "--skip-suite" in args
    for i, a in enumerate(args):
        if a == "--checks":
            checks = args[i + 1].split(",")
        if a == "--tier":
            tier = args[i + 1]
    name = os.path.basename(d)
    base = tempfile.mkdtemp(prefix="vs-" + name + "-", dir="/tmp")
    wt = os.path.join(base, "wt")
    res = {"id": name, "property": prop, "summary": meta.get("summary"), "needs": meta.get("needs")}
    try:
        rc, out = run(f"git -C /repo worktree add -q --detach {wt} HEAD", "/")
        if rc:
            res["error"] = "worktree: " + out
            return res
        patch = os.path.join(d, "patch.diff")
        rc, out = run(f"git apply {patch}", wt)
        res["applies"] = rc == 0
        if rc:
            res["error"] = out[-800:]
            return res
        rc, out = run("go build ./... 2>&1", wt)
        res["builds"] = rc == 0
        if rc:
            res["error"] = out[-800:]
            return res
        demo = os.path.join(d, "demo")
        demo_files = []
        for root, _, files in os.walk(demo):
            for f in files:
                rel = os.path.relpath(os.path.join(root, f), demo)
                os.makedirs(os.path.dirname(os.path.join(wt, rel)), exist_ok=True)
                shutil.copy(os.path.join(root, f), os.path.join(wt, rel))
                demo_files.append(rel)
        cmd = meta["demo_cmd"]
        rc, out = run(cmd + " 2>&1", wt, timeout=1200)
        res["demo_fails_with_patch"] = rc != 0
        res["demo_out_with_patch"] = out[-600:]
        run(f"git apply -R {patch}", wt)
        rc, out = run(cmd + " 2>&1", wt, timeout=1200)
        res["demo_passes_without_patch"] = rc == 0
        if rc:
            res["demo_out_without_patch"] = out[-600:]
        run(f"git apply {patch}", wt)
        for rel in demo_files:
            os.remove(os.path.join(wt, rel))
        if not skip_suite:
            ok, why = suite(wt)
            res["suite_passes"] = ok
            if not ok:
                res["suite_failures"] = why
        res["checks"] = {}
        for c in checks:
            vd = os.path.join(base, "vd-" + c)
            os.makedirs(vd, exist_ok=True)
            shutil.copy("/verif/known_findings.json", os.path.join(vd, "known_findings.json"))
            env = dict(ENV, VERIF_DIR=vd, VERIF_REPO=wt, TMPDIR=base)
            rc, out = run(f"/verif/check {c} {tier} 2>&1", "/verif", timeout=7200, env=env)
            viol = [l for l in out.splitlines() if l.startswith("violation:")]
            res["checks"][c] = {"exit": rc, "caught": rc == 1 and "VIOLATION property=" in out, "violations": [v[:260] for v in viol[:6]],
                                "tail": out[-400:] if rc not in (0, 1) else ""}
        res["caught"] = any(v["caught"] for v in res["checks"].values())
        return res
    finally:
        if not keep:
            run(f"git -C /repo worktree remove --force {wt}", "/")
            shutil.rmtree(base, ignore_errors=True)
            import hashlib
            tag = hashlib.md5((wt + "\n").encode()).hexdigest()[:8]
            run(f"rm -f /verif/bin/vcheck-{tag} /verif/bin/vcheck-race-{tag}", "/")


if __name__ == "__main__":
    r = main()
    print(json.dumps(r, indent=1))
