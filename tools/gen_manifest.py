#!/usr/bin/env python3
"""Regenerates /verif/MANIFEST.json from the table below (keeps it schema-valid at all times)."""
import json, os, subprocess, sys

HERE = os.path.dirname(os.path.dirname(os.path.abspath(__file__)))

# id -> (category, technique, level text, level note, design ref)
CHECKS = {
 "C01": ("exploration",
         "runtime monitoring: lock-step differential oracle (declarative reference model) over the real SQLite stack; bounded-exhaustive + seeded random histories; row-level table snapshots, I_chain and immutability monitors after every submission",
         "Every submission of every generated history is executed by the real Chains.Add on the real SQL stack; after it the whole headers table, the tip and the Add answer are compared with a declarative model written from the statement. Bounded-exhaustive over all labelled trees with <=3 (quick) / <=4 (thorough) new headers x work classes x all arrival orders, random histories up to 400 submissions beyond that. Held-on-what-was-observed, not a proof.",
         "Trusted: the reference model (harness/refmodel) as transcription of the statement; SQLite only; histories rooted at the mainnet genesis.",
         "DESIGN.md §5 C01"),
 "C05": ("fault_enumeration",
         "runtime monitoring with fault injection: repository-interface decorator fails/kills at EVERY write-transaction boundary of every history (in-process abandonment for all points, real SIGKILL of a child process for a seeded sample), then restart + double redelivery; oracles = structural invariant, acknowledged-header immutability, row-for-row equality with the uninterrupted run",
         "For each generated history (reorganisations of depth 1..4 quick / 1..8 thorough, branch switches, extensions, orphans, duplicates) the number W of repository write calls of the uninterrupted run is measured and the history is re-executed W x {kill-before, kill-after, error-instead} times on the real SQLite stack with exactly one fault, followed by database.Init on the same file and two redeliveries. Complete over the write boundaries of the histories generated; the histories themselves are sampled.",
         "Trusted: a write boundary = one call of repository.Headers.AddHeaderToDatabase/UpdateState (each is one committed SQL transaction, validated by the real-SIGKILL sample); ingestion stops at an injected write error (weakest reading); SQLite only.",
         "DESIGN.md §5 C05"),
 "C02": ("exploration",
         "runtime monitoring: differential oracle (reference-model verdict function) on request lists sent to the real POST /chain/merkleroot/verify handler and service over the real SQLite stack, at every reorganisation point of seeded histories",
         "Verdicts, block hashes, per-item order/length and the aggregate are compared with the statement's three-way rule for thousands of request lists on stores with reorganisations, stale blocks sharing heights with longest blocks, orphans and duplicate merkle roots, for excess in {0,1,6,100,MaxInt32,2^31,2^40}; the same lists are re-derived after every later reorganisation so demoted roots must stop being CONFIRMED. Sampled, not exhaustive.",
         "Trusted: reference model; lower-case hex roots only; excess <= MaxInt32; SQLite only.",
         "DESIGN.md §5 C02"),
 "C03": ("exploration",
         "runtime monitoring: independent hash/height/work arithmetic as oracle over the real stack with field-extreme generators; immutability monitor over row-level snapshots after every submission and across restarts; service and HTTP JSON round trips",
         "Every stored header of every generated history (int32/uint32 corners, timestamps over the whole uint32 range, all bits classes) is compared column by column with independently derived values, re-read through the service and both HTTP endpoints, and tracked by a monitor that fails if any non-state column of any earlier row ever changes or a row vanishes, including across database.Init restarts.",
         "Trusted: refmodel arithmetic (cross-checked exhaustively by C19); SQLite only.",
         "DESIGN.md §5 C03"),
 "C04": ("exploration",
         "runtime monitoring: reference-model query oracle against the real gin handlers on the real SQLite stack; all queries on small stored trees, sampled on large ones; table digest compared around reads",
         "For each stored tree every read endpoint is queried (exhaustively for trees of <=12 headers: every hash, every ordered ancestors pair, every multiset <=3 for common ancestor, every height window) and compared with what the stored tree implies under the weakest reading of the statement; the headers table digest must not change across reads.",
         "Trusted: reference model; queries crossing a late-stored parent link are skipped; degenerate arguments (empty lists, genesis) are left to C16; SQLite only.",
         "DESIGN.md §5 C04"),
 "C08": ("exploration",
         "runtime monitoring: complete page walks through the real GET /chain/merkleroot handler for every batch size on generated stores, compared with the reference model's longest chain; start-key and interleaved-ingestion walks",
         "For every generated store (forks, stale siblings at listed heights, orphans) the listing is walked to the end for every batch size 1..n+2 and must yield exactly the longest chain's (root,height) list in ascending order with pages <= batch size; every stored root is tried as start key (stale/orphan => 409, unknown => 404), and walks are interleaved with tip extensions.",
         "Trusted: reference model; merkle roots pairwise distinct; interleaved ingestion only extends the tip; SQLite only.",
         "DESIGN.md §5 C08"),
 "C13": ("exploration",
         "runtime monitoring: reference-model oracle for locator shape and getheaders answers against the real HeaderService on the real SQLite stack, incl. 2100/5000-header chains with stale branches at locator heights",
         "LatestHeaderLocator is checked after every extension of a growing chain and on every generated store (tip first, longest-chain hashes only, strictly descending, single steps then doubling, genesis last); tens of thousands of getheaders queries (locators mixing longest/stale/orphan/unknown hashes in any order, every class of stop hash) are compared header-by-header with the statement's answer, through both LocateHeaders and LocateHeadersGetHeaders.",
         "Trusted: reference model; number of single locator steps not fixed by the statement (any accepted); a stop hash that is not on the longest chain is read as 'no stop'; SQLite only.",
         "DESIGN.md §5 C13"),
 "C06": ("exploration",
         "runtime monitoring of the real sync engines against scripted Bitcoin-protocol nodes on loopback TCP (one child process per scenario); verdict at logical quiescence (ping/pong causality + sync-manager round trip), oracle = the rig's block tree",
         "Each generated scenario runs the full legacy P2P server (addrmgr, connmgr, serverPeer, SyncManager) or the experimental Peer against 1-4 protocol-conformant scripted nodes (honest, laggards, lighter forkers) across engines x checkpoint configurations x initial stores x reply caps x chain lengths around and beyond the 2000 cap x announcement modes x connection drops; after an honest announcement round the store must hold the honest chain and report its tip. Seeded sampling of the scenario space; timer-driven convergence (3-minute sync-peer rotation) only in the thorough tier.",
         "Trusted: scripted nodes implement the getheaders protocol as stated; domain limits listed in the evidence assumptions (competing forks lighter and adoptable from one reply; forks/laggards above the last checkpoint; experimental engine single peer, headers announcements). Watchdog expiry is inconclusive, never a verdict.",
         "DESIGN.md §5 C06"),
 "C07": ("exploration",
         "runtime monitoring: same scenario engine with misbehaving scripted nodes (forbidden header at first/middle/last/alone position of its batch; header contradicting a checkpoint; multi-checkpoint syncs); connection state and message logs observed at the node, table snapshots and HTTP probes for the forbidden hash, then the C06 convergence oracle",
         "For each scenario the misbehaving node is the only reachable one first (so it is asked), then honest nodes connect. The forbidden hash must never be stored or served, its sender must be disconnected and (legacy, 1 h ban) no later connection of that host may stay admitted while a 1 ms ban lets it back in; after a checkpoint mismatch the connection must be closed with no further getheaders on it; stop hashes must walk the checkpoint list and end with zero; the service must still converge on the honest chain.",
         "Trusted: forbidden hash is harness-chosen and appended to the network parameters before start; ban observed by effect at the node; experimental engine attaches peers one after the other.",
         "DESIGN.md §5 C07"),
 "C15": ("exploration",
         "runtime monitoring: (1) Go race detector over free-running P2P rigs with concurrent HTTP readers, (2) harness-controlled scheduler at the repository interface with the structural invariant evaluated after every granted step (systematic DFS over schedules within a pre-emption bound), (3) porcupine linearizability check of recorded Add histories + final table against the reference model",
         "The race-built binary runs legacy and experimental engines with peer churn, two peers announcing at once, an inbound peer and HTTP readers of /network/peer etc.; every race report is attributed by its innermost repository functions. Twelve concurrency scenarios of 2-3 submitters/readers are executed under all schedules (within the bound) at repository-call granularity; with the world stopped after each step the table must have exactly one parent-linked longest chain and every tip a reader got must be LONGEST; every execution's history must be linearizable to the final table.",
         "Trusted: scheduling granularity = repository.Headers calls; a goroutine blocked on a Go mutex is treated as disabled; race detector only sees executed paths; reference model.",
         "DESIGN.md §5 C15"),
}

# What each check gained after it was first built (mostly while strengthening against seeded changes, DESIGN.md §10/§11);
# appended to the level text so that MANIFEST.json describes the checks as they run today.
ADDED = {
 "C01": "two competing children of the tip submitted by two goroutines at the same moment (only the labels of one of the two sequential orders are accepted); reorganisations over 500 and 2002 heights (thorough: 499..2600); difficulty bits whose work lies next to 2^32 / 2^64 / 2^128 / 2^192.",
 "C02": "reorganisations over 501 and 1002 heights (thorough: up to 2001) after which every block of both branches is asked about, one request of 1000+ items in shuffled order, two competing blocks submitted at once, a relabelling statement that fails in the middle of a reorganisation. Block heights beyond 32 bits written as plain JSON numbers.",
 "C03": "INSERT failures injected in the middle of histories, histories in a non-UTC process time zone, stores filled by the start-up import of a prepared file and then extended, stores filled by ingestion after a refused import and a plain restart, stores on testnet / regtest / simnet, parents and ancestor paths re-read through the service. Towers of target-1 blocks whose cumulative work passes 10^78.",
 "C04": "queries at reorganisation points and after restarts, long stores (2000+ header paths, farthest pairs), by-height windows at the 32-bit limits and with negative start or length, and for two stored headers of which neither descends from the other the same-chain error is required (unless the would-be ancestor lies above the header). Windows of 1999..2002 and 4001 heights on stores beyond height 2100; no header listed twice.",
 "C05": "faults after which ingestion carries on in the same process, COMMITs refused inside SQLite (deferred foreign key raised by a trigger), reorganisations over 520 / 2010 heights, restarts onto a prepared-database configuration, a child of the earlier tip submitted right after a failed submission, a first start killed before the genesis insert.",
 "C06": "single-peer syncs are judged at the quiescence that follows the initial sync, before anything is announced (also after a scripted loss of the first connection once the re-dial was seen); slack rounds re-announce the same tip; peers lost before their version / between version and verack / right after the handshake, peers that answer beyond the stop hash, report a height below their chain, reorganise between announcements, batch their inv announcements; stores with a stale fork taller than the peer's chain; a registered webhook whose endpoint accepts every delivery and answers none (a sync that only completes once the endpoint answers is reported); thorough tier: 135 s idle periods in which the sync manager's periodic check drops the quiet sync peer.",
 "C07": "re-offence after an elapsed ban over a connection the host kept, offenders that behave after one offence, a forbidden header exactly at a checkpoint height, checkpoint-advance scenarios on both engines with nodes that answer beyond the stop hash (a checkpoint header in the middle of a message, several checkpoints in one message) and an exact stop-hash oracle (each request stops at the first checkpoint above what has been delivered; zero or an announced block after the last), offenders that first send a message with an unknown command (experimental engine) or that are no full nodes and push their headers right after the handshake (default engine), hit-and-run offenders, and repentant offenders whose host goes away with the offending connection: the service's re-dial of the banned host is awaited and must not stay admitted. A forbidden header right behind a matching checkpoint header in one message; in experimental-engine scenarios the package-level checkpoint list differs from the chain parameters.",
 "C08": "page sizes at and beyond the 32-bit limits, near misses of stored keys (case, a digit cut or appended, 0x prefix, byte-reversed), walks with restarts between pages, walks after a reorganisation was interrupted by a failing relabelling statement, a 2081-block chain after a 2050-deep reorganisation, walks after two competing children of the tip were submitted by two goroutines at once (the first to reach its INSERT waits up to 5 ms for the other).",
 "C09": "near-valid and case-swapped credentials, a revocation whose COMMIT is refused, configuration points with debug logging (gin in debug mode), a user token used on DELETE /access/:token with its own value, requests of the none/unknown/revoked classes dressed up as websocket upgrades. A revocation served while the tokens table is away; a restart with http.auth_token changed (the former admin token is refused).",
 "C10": "revocations and creations whose statements fail or whose COMMIT is refused, revocation under an exclusive lock held by another connection, bursts of creations, many simultaneous websocket connections with one token, revocation while clients keep authenticating (a look-up that starts after the acknowledged revocation must fail), admin-derived unknown tokens. Look-ups while a second connection holds a write transaction open.",
 "C11": "two goroutines delivering the same header at the same moment, the production webhook client against real HTTP servers (500 / dropped connection / 503 in turn), a flaky healthy webhook, bursts of 300-500 headers while the websocket publisher is blocked, webhooks registered with bearer / custom header / no authorisation and URLs with upper-case letters, a trailing slash and a query (a POST to any other URL is reported), webhooks switched off by max_tries failures and registered again (exactly one event for every header stored afterwards). A third of the worker processes run in Asia/Kolkata, a third in America/St_Johns.",
 "C12": "non-UTC process time zones, long tokens, bearer registrations that also name a header, 200 replies that arrive in several flushed parts, URLs with a trailing slash / upper-case letters / a query matched character for character, and the reported time of the last attempt must lie inside the bracket the harness measured around the Notify call (2 ms of slack). Stores of 498..640 webhooks with the last few failing.",
 "C13": "stores questioned in stages while they grow (earlier answers must not change), stores whose reorganisation was interrupted by a failing relabelling statement (at the repository seam and inside SQLite), stores on testnet / regtest / simnet, stores filled by the start-up import (after a refused first import) and then given heavier competitors at the tip height, stores after a reorganisation over 501 heights (thorough: 499..2001), and wire-level questions over TCP incl. the full 2000-header answer (a dropped connection instead of an answer is a violation).",
 "C14": "exact timestamps, 16 concurrent encoders on the codec's shared scratch buffers with a hostile goroutine feeding truncated frames before and beside them, allocations above the bound are measured again twice (the smallest value counts).",
 "C15": "free-running reorganisation storms (one submitter, six readers; every read names a stored header, the submitter reads the tip back after each of its submissions, a divergent submission is replayed with no reader active), reorganisations over exactly 500 / 1000 heights with readers, a locator reader and forbidden submissions during storms, peers on a losing branch announcing their own tip, eight hosts connecting at once to a service past its last checkpoint; thorough tier: scenarios in which the sync manager's 30-second check drops a quiet sync peer with no other candidate connected.",
 "C16": "worker processes with metrics enabled and with authentication switched off, invalid UTF-8 and 50 001 / 70 000-character values, wildcard-like values, and a structured error document sent with a 2xx status is reported. After each store's requests a header is announced to a registered webhook whose target cannot be reached (webhooks channel wired as in cmd/main.go).",
 "C17": "a leftover dump file, twin rows, an archive cut exactly at a row boundary, comment-marker corruptions of the first column, schema objects compared with a pristine database after every refusal (left behind or missing), every third import under p2p.disable_checkpoints. Stores whose blocks' work lies next to 2^32 / 2^64 / 2^128 / 2^192.",
 "C18": "monitor 3: the real address manager under AddAddresses / Attempt / Good / Connected / BanAddress / GetAddress sequences, incl. address books of 2300-3200 addresses of one group (tried buckets overflow) that are all banned afterwards (GetAddress must return, with the one good address left); monitor 4: p2putil.NewAddressFunc over the real address manager (non-default ports, addresses tried a moment ago; up to 400 calls, as the connection manager would ask again); monitor 5: the real server (connection manager, address manager, peer handler, sync manager) against one scripted node whose first connection - or first 9-12 connections - goes away before its version / between version and verack / right after the handshake / mid-sync / after two version messages: no connection held, an address known and not one dial attempt in more than 70 s (retry interval 5 s) means the slot is lost; re-ban cases (a 3 s ban elapses unnoticed, the host offends again over a connection it kept); half-handshake peers in the peer book. IPv6 hosts in the peer-book universe.",
 "C19": "purity: every 16th value is asked three times in a row.",
 "C20": "decoy files next to the selected one (.json / .yml), a selected config.yaml in another directory while the working directory holds a different one, BHS_CONFIG_FILE pointing elsewhere while the option names the file, every fourth file selected through BHS_CONFIG_FILE with no option at all, values with '$', the defaults object compared before and after every resolution, engine variants cross-checked against database.Init. Files named relative to the working directory.",
}

NOT_YET = "check not built yet in this session (work in progress; design in DESIGN.md §5)"

CLAIMED = set(l.strip() for l in open(os.path.join(HERE, "tools", "claimed.txt")) if l.strip() and not l.startswith("#"))

def load_pkg_entries():
    """checks/cNN/manifest.json: {"category","technique","text","note","ref"} written next to a check package."""
    import glob
    for f in sorted(glob.glob(os.path.join(HERE, "harness", "checks", "c*", "manifest.json"))):
        pid = os.path.basename(os.path.dirname(f)).upper()
        reg = os.path.join(HERE, "harness", "cmd", "vcheck", "reg_%s.go" % pid.lower())
        if not os.path.exists(reg) or pid not in CLAIMED:
            continue  # not wired into vcheck yet / not accepted by the coordinator yet
        d = json.load(open(f))
        CHECKS[pid] = (d["category"], d["technique"], d["text"], d["note"], d.get("ref", "DESIGN.md §5 " + pid))

def main():
    load_pkg_entries()
    props = [json.loads(l)["id"] for l in open(os.path.join(HERE, "properties.jsonl"))]
    hooks_commits = []
    hc = os.path.join(HERE, "hooks_commits.txt")
    if os.path.exists(hc):
        hooks_commits = [l.strip() for l in open(hc) if l.strip()]
    m = {
        "version": 1,
        "setup_cmd": "./setup.sh",
        "hooks": {
            "guard": "verif",
            "enable": "go build -tags verif (harness module in /verif/harness with replace => /repo; ./check does it)",
            "baseline_off_cmd": "cd /repo && GOFLAGS=-mod=mod GOPROXY=off go test -json -vet=off -count=1 -timeout 25m ./...",
            "source_commits": hooks_commits,
            "add_only": True,
        },
        "engines": [
            {"name": "vcheck", "path": "harness/cmd/vcheck", "serves_properties": sorted(CHECKS),
             "kind_free_text": "Go harness compiled against /repo's working tree; per-property runtime monitors (reference-model oracles, table snapshots, fault-injecting repository decorator, scripted P2P nodes, race detector)"},
        ],
        "checks": [],
        "not_applicable": [],
        "notes": "Family: runtime monitoring and sanitizers. ./check <id> quick|thorough rebuilds harness+repo from the working tree each time. Known findings: known_findings.json (read-only at run time).",
    }
    for pid in props:
        if pid in CHECKS and pid in CLAIMED:
            cat, tech, text, note, ref = CHECKS[pid]
            if pid in ADDED:
                text = text.rstrip() + " Added since (DESIGN.md §10/§11): " + ADDED[pid]
            note = note.replace(" Expected on the unchanged tree: signature connmgr|slot-lost-after-address-ban|target-not-reached (registerFailedConnectionTo returns without scheduling a replacement once an address reaches maxFailedAttempts).", "")
            m["checks"].append({
                "property_id": pid,
                "quick_cmd": f"./check {pid} quick",
                "thorough_cmd": f"./check {pid} thorough",
                "evidence_file": f"evidence/{pid}.json",
                "replay_cmd_template": f"./check {pid} --replay {{path}}",
                "engine": "vcheck",
                "level_claimed": {"category": cat, "text": text, "design_ref": ref},
                "level_note": note,
                "technique": tech,
            })
        else:
            m["not_applicable"].append({"property_id": pid, "reason": NOT_YET})
    with open(os.path.join(HERE, "MANIFEST.json"), "w") as f:
        json.dump(m, f, indent=1)
        f.write("\n")
    # validate
    try:
        import jsonschema
        jsonschema.validate(m, json.load(open("/root/.vp/MANIFEST.schema.json")))
        print("MANIFEST.json valid;", len(m["checks"]), "checks,", len(m["not_applicable"]), "not claimed")
    except ImportError:
        print("jsonschema not importable; wrote MANIFEST.json unvalidated")

if __name__ == "__main__":
    main()
