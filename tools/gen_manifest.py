#!/usr/bin/env python3
"""Regenerates /verif/MANIFEST.json from the table below (keeps it schema-valid at all times)."""
import json, os, subprocess, sys

HERE = os.path.dirname(os.path.dirname(os.path.abspath(__file__)))

# id -> (category, technique, level text, level note, design ref)
CHECKS = {
 "C01": ("exploration",
         "runtime monitoring: lock-step differential oracle (declarative reference model) over the real SQLite stack; bounded-exhaustive + seeded random histories; row-level table snapshots, I_chain and immutability monitors after every submission",
         "Every submission of every generated history is executed by the real Chains.Add on the real SQL stack; after it the whole headers table, the tip and the Add answer are compared with a declarative model written from the statement. Bounded-exhaustive over all labelled trees with <=3 (quick) / <=4 (thorough) new headers x work classes x all arrival orders, random histories up to 400 submissions beyond that. Held-on-what-was-observed, not a proof.",
         "Trusted: the reference model (harness/refmodel) as transcription of the statement; SQLite only; histories rooted at the mainnet genesis.",
         "DESIGN.md §5 C01"),
 "C05": ("fault_enumeration",
         "runtime monitoring with fault injection: repository-interface decorator fails/kills at EVERY write-transaction boundary of every history (in-process abandonment for all points, real SIGKILL of a child process for a seeded sample), then restart + double redelivery; oracles = structural invariant, acknowledged-header immutability, row-for-row equality with the uninterrupted run",
         "For each generated history (reorganisations of depth 1..4 quick / 1..8 thorough, branch switches, extensions, orphans, duplicates) the number W of repository write calls of the uninterrupted run is measured and the history is re-executed W x {kill-before, kill-after, error-instead} times on the real SQLite stack with exactly one fault, followed by database.Init on the same file and two redeliveries. Complete over the write boundaries of the histories generated; the histories themselves are sampled.",
         "Trusted: a write boundary = one call of repository.Headers.AddHeaderToDatabase/UpdateState (each is one committed SQL transaction, validated by the real-SIGKILL sample); ingestion stops at an injected write error (weakest reading); SQLite only.",
         "DESIGN.md §5 C05"),
 "C02": ("exploration",
         "runtime monitoring: differential oracle (reference-model verdict function) on request lists sent to the real POST /chain/merkleroot/verify handler and service over the real SQLite stack, at every reorganisation point of seeded histories",
         "Verdicts, block hashes, per-item order/length and the aggregate are compared with the statement's three-way rule for thousands of request lists on stores with reorganisations, stale blocks sharing heights with longest blocks, orphans and duplicate merkle roots, for excess in {0,1,6,100,MaxInt32,2^31,2^40}; the same lists are re-derived after every later reorganisation so demoted roots must stop being CONFIRMED. Sampled, not exhaustive.",
         "Trusted: reference model; lower-case hex roots only; excess <= MaxInt32; SQLite only.",
         "DESIGN.md §5 C02"),
 "C03": ("exploration",
         "runtime monitoring: independent hash/height/work arithmetic as oracle over the real stack with field-extreme generators; immutability monitor over row-level snapshots after every submission and across restarts; service and HTTP JSON round trips",
         "Every stored header of every generated history (int32/uint32 corners, timestamps over the whole uint32 range, all bits classes) is compared column by column with independently derived values, re-read through the service and both HTTP endpoints, and tracked by a monitor that fails if any non-state column of any earlier row ever changes or a row vanishes, including across database.Init restarts.",
         "Trusted: refmodel arithmetic (cross-checked exhaustively by C19); SQLite only.",
         "DESIGN.md §5 C03"),
 "C04": ("exploration",
         "runtime monitoring: reference-model query oracle against the real gin handlers on the real SQLite stack; all queries on small stored trees, sampled on large ones; table digest compared around reads",
         "For each stored tree every read endpoint is queried (exhaustively for trees of <=12 headers: every hash, every ordered ancestors pair, every multiset <=3 for common ancestor, every height window) and compared with what the stored tree implies under the weakest reading of the statement; the headers table digest must not change across reads.",
         "Trusted: reference model; queries crossing a late-stored parent link are skipped; degenerate arguments (empty lists, genesis) are left to C16; SQLite only.",
         "DESIGN.md §5 C04"),
 "C08": ("exploration",
         "runtime monitoring: complete page walks through the real GET /chain/merkleroot handler for every batch size on generated stores, compared with the reference model's longest chain; start-key and interleaved-ingestion walks",
         "For every generated store (forks, stale siblings at listed heights, orphans) the listing is walked to the end for every batch size 1..n+2 and must yield exactly the longest chain's (root,height) list in ascending order with pages <= batch size; every stored root is tried as start key (stale/orphan => 409, unknown => 404), and walks are interleaved with tip extensions.",
         "Trusted: reference model; merkle roots pairwise distinct; interleaved ingestion only extends the tip; SQLite only.",
         "DESIGN.md §5 C08"),
 "C13": ("exploration",
         "runtime monitoring: reference-model oracle for locator shape and getheaders answers against the real HeaderService on the real SQLite stack, incl. 2100/5000-header chains with stale branches at locator heights",
         "LatestHeaderLocator is checked after every extension of a growing chain and on every generated store (tip first, longest-chain hashes only, strictly descending, single steps then doubling, genesis last); tens of thousands of getheaders queries (locators mixing longest/stale/orphan/unknown hashes in any order, every class of stop hash) are compared header-by-header with the statement's answer, through both LocateHeaders and LocateHeadersGetHeaders.",
         "Trusted: reference model; number of single locator steps not fixed by the statement (any accepted); a stop hash that is not on the longest chain is read as 'no stop'; SQLite only.",
         "DESIGN.md §5 C13"),
 "C06": ("exploration",
         "runtime monitoring of the real sync engines against scripted Bitcoin-protocol nodes on loopback TCP (one child process per scenario); verdict at logical quiescence (ping/pong causality + sync-manager round trip), oracle = the rig's block tree",
         "Each generated scenario runs the full legacy P2P server (addrmgr, connmgr, serverPeer, SyncManager) or the experimental Peer against 1-4 protocol-conformant scripted nodes (honest, laggards, lighter forkers) across engines x checkpoint configurations x initial stores x reply caps x chain lengths around and beyond the 2000 cap x announcement modes x connection drops; after an honest announcement round the store must hold the honest chain and report its tip. Seeded sampling of the scenario space; timer-driven convergence (3-minute sync-peer rotation) only in the thorough tier.",
         "Trusted: scripted nodes implement the getheaders protocol as stated; domain limits listed in the evidence assumptions (competing forks lighter and adoptable from one reply; forks/laggards above the last checkpoint; experimental engine single peer, headers announcements). Watchdog expiry is inconclusive, never a verdict.",
         "DESIGN.md §5 C06"),
 "C07": ("exploration",
         "runtime monitoring: same scenario engine with misbehaving scripted nodes (forbidden header at first/middle/last/alone position of its batch; header contradicting a checkpoint; multi-checkpoint syncs); connection state and message logs observed at the node, table snapshots and HTTP probes for the forbidden hash, then the C06 convergence oracle",
         "For each scenario the misbehaving node is the only reachable one first (so it is asked), then honest nodes connect. The forbidden hash must never be stored or served, its sender must be disconnected and (legacy, 1 h ban) no later connection of that host may stay admitted while a 1 ms ban lets it back in; after a checkpoint mismatch the connection must be closed with no further getheaders on it; stop hashes must walk the checkpoint list and end with zero; the service must still converge on the honest chain.",
         "Trusted: forbidden hash is harness-chosen and appended to the network parameters before start; ban observed by effect at the node; experimental engine attaches peers one after the other.",
         "DESIGN.md §5 C07"),
 "C15": ("exploration",
         "runtime monitoring: (1) Go race detector over free-running P2P rigs with concurrent HTTP readers, (2) harness-controlled scheduler at the repository interface with the structural invariant evaluated after every granted step (systematic DFS over schedules within a pre-emption bound), (3) porcupine linearizability check of recorded Add histories + final table against the reference model",
         "The race-built binary runs legacy and experimental engines with peer churn, two peers announcing at once, an inbound peer and HTTP readers of /network/peer etc.; every race report is attributed by its innermost repository functions. Twelve concurrency scenarios of 2-3 submitters/readers are executed under all schedules (within the bound) at repository-call granularity; with the world stopped after each step the table must have exactly one parent-linked longest chain and every tip a reader got must be LONGEST; every execution's history must be linearizable to the final table.",
         "Trusted: scheduling granularity = repository.Headers calls; a goroutine blocked on a Go mutex is treated as disabled; race detector only sees executed paths; reference model.",
         "DESIGN.md §5 C15"),
}

NOT_YET = "check not built yet in this session (work in progress; design in DESIGN.md §5)"

CLAIMED = set(l.strip() for l in open(os.path.join(HERE, "tools", "claimed.txt")) if l.strip() and not l.startswith("#"))

def load_pkg_entries():
    """checks/cNN/manifest.json: {"category","technique","text","note","ref"} written next to a check package."""
    import glob
    for f in sorted(glob.glob(os.path.join(HERE, "harness", "checks", "c*", "manifest.json"))):
        pid = os.path.basename(os.path.dirname(f)).upper()
        reg = os.path.join(HERE, "harness", "cmd", "vcheck", "reg_%s.go" % pid.lower())
        if not os.path.exists(reg) or pid not in CLAIMED:
            continue  # not wired into vcheck yet / not accepted by the coordinator yet
        d = json.load(open(f))
        CHECKS[pid] = (d["category"], d["technique"], d["text"], d["note"], d.get("ref", "DESIGN.md §5 " + pid))

def main():
    load_pkg_entries()
    props = [json.loads(l)["id"] for l in open(os.path.join(HERE, "properties.jsonl"))]
    hooks_commits = []
    hc = os.path.join(HERE, "hooks_commits.txt")
    if os.path.exists(hc):
        hooks_commits = [l.strip() for l in open(hc) if l.strip()]
    m = {
        "version": 1,
        "setup_cmd": "./setup.sh",
        "hooks": {
            "guard": "verif",
            "enable": "go build -tags verif (harness module in /verif/harness with replace => /repo; ./check does it)",
            "baseline_off_cmd": "cd /repo && GOFLAGS=-mod=mod GOPROXY=off go test -json -vet=off -count=1 -timeout 25m ./...",
            "source_commits": hooks_commits,
            "add_only": True,
        },
        "engines": [
            {"name": "vcheck", "path": "harness/cmd/vcheck", "serves_properties": sorted(CHECKS),
             "kind_free_text": "Go harness compiled against /repo's working tree; per-property runtime monitors (reference-model oracles, table snapshots, fault-injecting repository decorator, scripted P2P nodes, race detector)"},
        ],
        "checks": [],
        "not_applicable": [],
        "notes": "Family: runtime monitoring and sanitizers. ./check <id> quick|thorough rebuilds harness+repo from the working tree each time. Known findings: known_findings.json (read-only at run time).",
    }
    for pid in props:
        if pid in CHECKS and pid in CLAIMED:
            cat, tech, text, note, ref = CHECKS[pid]
            m["checks"].append({
                "property_id": pid,
                "quick_cmd": f"./check {pid} quick",
                "thorough_cmd": f"./check {pid} thorough",
                "evidence_file": f"evidence/{pid}.json",
                "replay_cmd_template": f"./check {pid} --replay {{path}}",
                "engine": "vcheck",
                "level_claimed": {"category": cat, "text": text, "design_ref": ref},
                "level_note": note,
                "technique": tech,
            })
        else:
            m["not_applicable"].append({"property_id": pid, "reason": NOT_YET})
    with open(os.path.join(HERE, "MANIFEST.json"), "w") as f:
        json.dump(m, f, indent=1)
        f.write("\n")
    # validate
    try:
        import jsonschema
        jsonschema.validate(m, json.load(open("/root/.vp/MANIFEST.schema.json")))
        print("MANIFEST.json valid;", len(m["checks"]), "checks,", len(m["not_applicable"]), "not claimed")
    except ImportError:
        print("jsonschema not importable; wrote MANIFEST.json unvalidated")

if __name__ == "__main__":
    main()
