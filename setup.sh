#!/bin/bash
# MANIFEST.setup_cmd: build both harness binaries once (warms the Go build cache). Offline.
set -eu
cd "$(dirname "$0")"
export GOFLAGS=-mod=mod GOPROXY=off
mkdir -p bin evidence replays
cd harness
go build -tags verif -o ../bin/vcheck ./cmd/vcheck
go build -tags verif -race -o ../bin/vcheck-race ./cmd/vcheck
echo setup ok
